"""C20 - status marker reports success only for a complete, sorted, indexed output.

Part 1: translator (AST walk of the tagging pipelines -> coq/Gen/GenStatus.v, terms of Lib.StatusLang.prog).
Part 2: the check (fault enumeration on the real pipelines vs the model).

What is extracted (fail closed: anything outside the recognised subset raises Untranslatable):
  * every call, in evaluation order, of run_multiome_tagging (including the --cluster branch),
    tag_multiome_single_thread, tag_multiome_multi_processing, sorted_bam_file (code before / after the
    yield), sort_and_index, merge_bams, the whole body of run_tagging_tasks (temp BAM naming, the task
    loop with its TimeoutError handler, sort + index on leaving the with block, removal of an empty
    temp BAM, both return statements) and the body of run_tagging_task (inlined where the worker calls it);
  * try/except (which exceptions are caught, whether the handler re-raises), for loops with break /
    continue, if/else, early return (worker only), exit();
  * the data the worker's control flow depends on: the molecule counter of a task, the accumulator of
    the worker and the test on it that decides between `return path` and `remove; return None`; in the
    parent the test `bam is not None` and the append to the merge list (role checks: fail closed when the
    counter / accumulator / merge list cannot be identified);
  * one result of the pool (next(job_generator)) is a Spawn of the worker program on a world of its own;
  * the effect of a call on the abstract world is decided from the callee name AND from whether it
    receives the output path (or <output>.bai): see classify().  A call that does not receive the
    output path is a step without effect on the world (it can still fail).  A call of an unknown
    function that does receive the output path is refused.
"""
import ast, os, hashlib
from py2coq import Untranslatable

TM = 'singlecellmultiomics/universalBamTagger/bamtagmultiome.py'
BF = 'singlecellmultiomics/bamProcessing/bamFunctions.py'
TG = 'singlecellmultiomics/universalBamTagger/tagging.py'

OK_MESSAGE = 'Reached end. All ok!'
# calls that cannot touch the file system and are not worth a crash point of their own
PURE = {'print', 'len', 'list', 'dict', 'set', 'str', 'int', 'float', 'bool', 'enumerate', 'isinstance', 'type',
        'tuple', 'sorted', 'range', 'any', 'all', 'sum', 'min', 'max', 'locals', 'repr', 'format', 'zip',
        'sleep', 'time.sleep', 'os.path.exists', 'os.path.dirname', 'os.path.abspath', 'os.path.join',
        'os.path.basename', 'sys.stderr.write', 'sys.stdout.write', 'which', 'datetime.now', 'uuid.uuid4', 'uuid4'}
PURE_METHODS = {'endswith', 'startswith', 'replace', 'split', 'join', 'get', 'items', 'keys', 'values', 'append',
                'add', 'copy', 'strftime', 'total_seconds', 'format', 'strip', 'lower', 'upper', 'update', 'extend'}
# functions whose body is translated and referenced where they receive the output path:
#   name -> (file key, name of the parameter holding the output path)
INLINE = {
    'sorted_bam_file': (BF, 'write_path'),
    'sort_and_index': (BF, 'sorted_path'),
    'merge_bams': (BF, 'output_path'),
    'tag_multiome_single_thread': (TM, 'out_bam_path'),
    'tag_multiome_multi_processing': (TM, 'out_bam_path'),
}


def dotted(node):
    if isinstance(node, ast.Name):
        return node.id
    if isinstance(node, ast.Attribute):
        b = dotted(node.value)
        return (b + '.' + node.attr) if b else None
    return None


def dump(e):
    return ast.dump(e, annotate_fields=False)


def walk_own(node):
    """ast.walk without entering nested function / class definitions and lambdas"""
    todo = list(ast.iter_child_nodes(node))
    yield node
    while todo:
        n = todo.pop()
        if isinstance(n, (ast.FunctionDef, ast.AsyncFunctionDef, ast.ClassDef, ast.Lambda)):
            continue
        yield n
        todo.extend(ast.iter_child_nodes(n))


class Ctx:
    """per function translation context"""
    def __init__(self, gen, fname, fdef, out_exprs, relfile):
        self.gen, self.fname, self.fdef, self.rel = gen, fname, fdef, relfile
        self.out = set(dump(e) for e in out_exprs)
        self.idx = set()
        for e in out_exprs:
            src = ast.unparse(e)
            for s in ("f'{%s}.bai'" % src, "%s + '.bai'" % src):
                self.idx.add(dump(ast.parse(s, mode='eval').body))
        self.out_src = [ast.unparse(e) for e in out_exprs]
        self.alias = {}         # loop variable of an unrolled literal loop -> expression
        self.handles = set()    # names bound by `with sorted_bam_file(out) as NAME`
        self.unit_iters = set()  # names assigned from an iterator over run_tagging_tasks results
        self.ret_ok = False     # early `return <path>, meta` / `return None, meta` allowed (run_tagging_tasks)
        self.no_flow = 0        # > 0: inside a `with sorted_bam_file(out)` body: leaving it by return is refused
        self.counter = None     # name of the per-task molecule counter (run_tagging_task)
        self.acc = None         # name of the worker's accumulator, (stat var, key) it is fed from (run_tagging_tasks)
        self.acc_from = None
        self.report_list = None  # name of the list the TimeoutError handler appends the task to
        self.loop_var = None
        self.got_var = None     # first target of the loop over worker results (`bam`)
        self.keep_list = None   # the list handed to merge_bams
        self.allow_out_assign = False
        self.acc_seen = False
        self.meta_var = None
        self.assigned = {}      # name -> list of value nodes (whole function)
        for n in ast.walk(fdef):
            if isinstance(n, ast.Assign) and len(n.targets) == 1 and isinstance(n.targets[0], ast.Name):
                self.assigned.setdefault(n.targets[0].id, []).append(n.value)

    def resolve(self, e):
        if isinstance(e, ast.Name) and e.id in self.alias:
            return self.alias[e.id]
        return e

    def is_out(self, e):
        return dump(self.resolve(e)) in self.out

    def is_idx(self, e):
        return dump(self.resolve(e)) in self.idx

    def mentions_out(self, e):
        """the expression contains the output path (as a sub-expression)"""
        e = self.resolve(e)
        for n in ast.walk(e):
            if isinstance(n, ast.expr):
                n2 = self.resolve(n)
                if dump(n2) in self.out or dump(n2) in self.idx:
                    return True
        return False


class Gen:
    def __init__(self, repo):
        self.repo = repo
        self.labels = []      # label id -> name
        self.label_count = {}
        self.loops = []       # loop id -> name
        self.choices = []     # choice id -> name (function: test source)
        self.defs = []        # (coq name, term text)
        self.meta = []
        self.notes = []
        self.trees = {}
        self.funcs = {}
        for rel in (TM, BF, TG):
            p = os.path.join(repo, rel)
            src = open(p).read()
            tree = ast.parse(src)
            self.trees[rel] = (tree, src)
            for n in tree.body:
                if isinstance(n, ast.FunctionDef):
                    self.funcs[(rel, n.name)] = n
        self.built = {}
        self.special = {}     # choice ids the theorems name

    # ---------------------------------------------------------------- ids
    def label(self, fname, callee):
        key = '%s/%s' % (fname, callee)
        k = self.label_count.get(key, 0)
        self.label_count[key] = k + 1
        self.labels.append('%s#%d' % (key, k))
        return len(self.labels) - 1

    def loop_id(self, fname, node):
        self.loops.append('%s: for %s in %s' % (fname, ast.unparse(node.target), ast.unparse(node.iter)))
        return len(self.loops) - 1

    def choice_id(self, fname, test):
        self.choices.append('%s: %s' % (fname, ast.unparse(test)))
        return len(self.choices) - 1

    def refuse(self, ctx, node, why):
        raise Untranslatable('%s:%s (%s): %s: %s' % (ctx.rel, getattr(node, 'lineno', '?'), ctx.fname, why,
                                                     ast.unparse(node)[:120].replace('\n', ' ')))

    # ---------------------------------------------------------------- calls
    def calls_in(self, node):
        """Call nodes below node in evaluation order (arguments before the call); lambdas and nested
        function definitions are not entered"""
        out = []

        def visit(n):
            if isinstance(n, (ast.Lambda, ast.FunctionDef, ast.AsyncFunctionDef, ast.ClassDef)):
                return
            for c in ast.iter_child_nodes(n):
                visit(c)
            if isinstance(n, ast.Call):
                out.append(n)
            if isinstance(n, (ast.Yield, ast.YieldFrom, ast.Await)):
                raise Untranslatable('yield/await outside the recognised place: line %s' % getattr(n, 'lineno', '?'))
        visit(node)
        return out

    def status_of(self, ctx, msg):
        if not (isinstance(msg, ast.Constant) and isinstance(msg.value, str)):
            self.refuse(ctx, msg, 'status message is not a string literal')
        m = msg.value
        if m == OK_MESSAGE:
            return 'SOk'
        if m == 'unfinished':
            return 'SUnfinished'
        if m.startswith('FAIL'):
            return 'SFail'
        return 'SOther'

    def classify(self, ctx, call):
        """-> list of prog terms for this one call (arguments already handled by the caller)"""
        name = dotted(call.func)
        args = list(call.args) + [k.value for k in call.keywords]
        touches = [a for a in args if ctx.mentions_out(a)]
        st = lambda eff, nm=None: ['Step %d %s' % (self.label(ctx.fname, nm or name or 'call'), eff)]
        if name is None and isinstance(call.func, ast.Attribute) and isinstance(call.func.value, (ast.Constant, ast.JoinedStr)) \
                and call.func.attr in PURE_METHODS:
            return []           # ' '.join(...), 'x'.format(...): string arithmetic
        if name is None:
            # call of a call result / subscript: no name; refuse only when it receives the output path
            if touches:
                self.refuse(ctx, call, 'unnamed callee receives the output path')
            return st('ENop', 'call')
        base = name.split('.')[-1]
        if name in PURE:
            return []
        if name in ('exit', 'sys.exit', 'quit', 'os._exit'):
            return ['Raise %d KBase' % self.label(ctx.fname, name)]      # SystemExit
        if base == 'append' and isinstance(call.func, ast.Attribute) and isinstance(call.func.value, ast.Name) \
                and len(call.args) == 1 and not call.keywords and isinstance(call.args[0], ast.Name):
            recv, arg = call.func.value.id, call.args[0].id
            if ctx.report_list is not None and recv == ctx.report_list:
                if arg != ctx.loop_var:
                    self.refuse(ctx, call, 'something other than the current task is appended to the reported tasks')
                return st('EReport', '%s.append' % recv)
            if ctx.got_var is not None and arg == ctx.got_var:
                if recv != ctx.keep_list:
                    self.refuse(ctx, call, 'the returned temp BAM is appended to a list that is not the merge list')
                return st('EKeep', '%s.append' % recv)
        # method of the output path string itself (args.o.endswith ...)
        if isinstance(call.func, ast.Attribute) and ctx.mentions_out(call.func.value):
            if base in PURE_METHODS:
                return []
            self.refuse(ctx, call, 'method call on the output path')
        if isinstance(call.func, ast.Attribute) and base in PURE_METHODS and not touches:
            return []
        if name == 'write_status':
            if len(call.args) != 2 or call.keywords:
                self.refuse(ctx, call, 'write_status call shape')
            if ctx.is_out(call.args[0]):
                return st('(EStatus %s)' % self.status_of(ctx, call.args[1]))
            if ctx.mentions_out(call.args[0]):
                self.refuse(ctx, call, 'write_status on a path derived from the output path')
            return st('ENop')
        if name in ('os.remove', 'remove', 'os.unlink'):
            if len(args) != 1:
                self.refuse(ctx, call, 'remove call shape')
            if ctx.is_out(args[0]):
                return st('ERemoveOut')
            if ctx.is_idx(args[0]):
                return st('ERemoveIdx')
            return st('ENop')          # e.g. f'{out}.unsorted', temp files
        if name in ('os.rename', 'move', 'shutil.move', 'os.replace'):
            if len(args) != 2:
                self.refuse(ctx, call, 'move call shape')
            if ctx.mentions_out(args[0]):
                self.refuse(ctx, call, 'the output is moved away')
            if ctx.is_out(args[1]):
                return st('EWriteOut')
            if ctx.is_idx(args[1]):
                return st('EIndex')
            if ctx.mentions_out(args[1]):
                self.refuse(ctx, call, 'move to a path derived from the output path')
            return st('ENop')
        if name == 'pysam.sort':
            if any(ctx.is_out(a) for a in args):
                return st('EWriteOut')
            if touches:
                self.refuse(ctx, call, 'pysam.sort argument derived from the output path')
            return st('ENop')
        if name == 'pysam.merge':
            if args and ctx.is_out(args[0]):
                return st('EWriteOut')
            if touches:
                self.refuse(ctx, call, 'pysam.merge with the output path as an input')
            return st('ENop')
        if name == 'pysam.index':
            if args and ctx.is_out(args[0]):
                return st('EIndex')
            if touches:
                self.refuse(ctx, call, 'pysam.index argument derived from the output path')
            return st('ENop')
        if name == 'os.system':
            cmd = args[0] if args else None
            vals = ctx.assigned.get(cmd.id, []) if isinstance(cmd, ast.Name) else [cmd]
            if len(vals) == 1 and isinstance(vals[0], ast.JoinedStr):
                text = ast.unparse(vals[0])
                if any(ctx.mentions_out(v.value) for v in vals[0].values if isinstance(v, ast.FormattedValue)):
                    if 'samtools merge -o {%s}' % ctx.out_src[0] in text:
                        return st('EWriteOut')
                    self.refuse(ctx, call, 'shell command mentioning the output path')
                return st('ENop')
            self.refuse(ctx, call, 'os.system with a command that is not an f-string literal')
        if base == 'write_pysam':
            if args and isinstance(args[0], ast.Name) and args[0].id in ctx.handles:
                return st('EUnit', 'write_pysam')
            return st('ENop', 'write_pysam')
        if name == 'run_tagging_task' and any(isinstance(a, ast.Name) and a.id in ctx.handles for a in args):
            fdef = self.funcs.get((TG, 'run_tagging_task'))
            if fdef is None:
                self.refuse(ctx, call, 'definition of run_tagging_task not found')
            bound = self.bind(fdef, call, 'output')
            if not (isinstance(bound, ast.Name) and bound.id in ctx.handles):
                self.refuse(ctx, call, 'run_tagging_task does not receive the output handle as `output`')
            self.build_task()
            return ['run_tagging_task_body']
        if name in INLINE:
            rel, param = INLINE[name]
            fdef = self.funcs.get((rel, name))
            if fdef is None:
                self.refuse(ctx, call, 'definition of %s not found' % name)
            bound = self.bind(fdef, call, param)
            if bound is not None and ctx.is_out(bound):
                if name == 'sorted_bam_file':
                    self.refuse(ctx, call, 'sorted_bam_file(output) used outside a with statement')
                self.build(name)
                return ['%s_body' % name]
            if touches:
                self.refuse(ctx, call, '%s receives the output path in another parameter' % name)
            return st('ENop')
        if touches:
            self.refuse(ctx, call, 'unknown function receives the output path')
        return st('ENop')

    def bind(self, fdef, call, param):
        names = [a.arg for a in fdef.args.args]
        if param not in names:
            raise Untranslatable('%s has no parameter %s any more' % (fdef.name, param))
        i = names.index(param)
        if i < len(call.args):
            if any(isinstance(a, ast.Starred) for a in call.args[:i + 1]):
                raise Untranslatable('starred call of %s' % fdef.name)
            return call.args[i]
        for k in call.keywords:
            if k.arg == param:
                return k.value
            if k.arg is None:
                raise Untranslatable('**kwargs call of %s' % fdef.name)
        return None

    def expr_steps(self, ctx, node):
        out = []
        for c in self.calls_in(node):
            out += self.classify(ctx, c)
        return out

    # ---------------------------------------------------------------- statements
    def walk(self, ctx, stmts, in_loop=False):
        out = []
        for s in stmts:
            out += self.stmt(ctx, s, in_loop)
        return out

    def finish_def(self, name, term):
        self.defs.append((name, term))

    def data_stmt(self, ctx, s):
        """assignments to the tracked data (molecule counter of a task, accumulator of the worker) -> a step
        with the corresponding effect; None when s is not one of them"""
        if isinstance(s, ast.Assign) and len(s.targets) == 1 and isinstance(s.targets[0], ast.Name):
            t = s.targets[0].id
            if t == ctx.counter:
                if isinstance(s.value, ast.Constant) and s.value.value == 0:
                    return ['Step %d ECntReset' % self.label(ctx.fname, '%s=0' % t)]
                self.refuse(ctx, s, 'the molecule counter is assigned something other than 0')
            if t == ctx.acc:
                if isinstance(s.value, ast.Constant) and s.value.value == 0 and not ctx.acc_seen:
                    ctx.acc_seen = True
                    return []          # the initial value: tm = false in the worker's initial world
                self.refuse(ctx, s, 'the accumulator of written molecules is re-assigned')
        if isinstance(s, ast.AugAssign) and isinstance(s.target, ast.Name):
            t = s.target.id
            if t == ctx.counter:
                if isinstance(s.op, ast.Add) and isinstance(s.value, ast.Constant) and s.value.value == 1:
                    return ['Step %d ECntInc' % self.label(ctx.fname, '%s+=1' % t)]
                self.refuse(ctx, s, 'the molecule counter is changed by something other than += 1')
            if t == ctx.acc:
                v = s.value
                ok = isinstance(s.op, ast.Add) and ctx.acc_from is not None
                if ok:
                    stat, key = ctx.acc_from
                    get = (isinstance(v, ast.Call) and isinstance(v.func, ast.Attribute) and v.func.attr == 'get'
                           and isinstance(v.func.value, ast.Name) and v.func.value.id == stat and len(v.args) in (1, 2)
                           and isinstance(v.args[0], ast.Constant) and v.args[0].value == key
                           and (len(v.args) == 1 or (isinstance(v.args[1], ast.Constant) and v.args[1].value == 0)))
                    sub = (isinstance(v, ast.Subscript) and isinstance(v.value, ast.Name) and v.value.id == stat
                           and isinstance(v.slice, ast.Constant) and v.slice.value == key)
                    ok = get or sub
                if not ok:
                    self.refuse(ctx, s, 'the accumulator is not fed from the molecule count the task returns')
                return ['Step %d EAccum' % self.label(ctx.fname, '%s+=' % t)]
        return None

    def guard_of(self, ctx, test):
        """a test on tracked data -> (guard, negated) or None"""
        neg = False
        if isinstance(test, ast.UnaryOp) and isinstance(test.op, ast.Not):
            test, neg = test.operand, True
        if ctx.acc is not None:
            if isinstance(test, ast.Name) and test.id == ctx.acc:
                return 'GTotal', neg
            if isinstance(test, ast.Compare) and len(test.ops) == 1:
                l, op, r = test.left, test.ops[0], test.comparators[0]
                isacc = lambda e: isinstance(e, ast.Name) and e.id == ctx.acc
                num = lambda e, n: isinstance(e, ast.Constant) and type(e.value) is int and e.value == n
                if isacc(l) and ((isinstance(op, ast.Gt) and num(r, 0)) or (isinstance(op, ast.GtE) and num(r, 1))
                                 or (isinstance(op, ast.NotEq) and num(r, 0))):
                    return 'GTotal', neg
                if isacc(r) and ((isinstance(op, ast.Lt) and num(l, 0)) or (isinstance(op, ast.LtE) and num(l, 1))):
                    return 'GTotal', neg
                if isacc(l) and ((isinstance(op, ast.Eq) and num(r, 0)) or (isinstance(op, ast.LtE) and num(r, 0))
                                 or (isinstance(op, ast.Lt) and num(r, 1))):
                    return 'GTotal', not neg
            if any(isinstance(n, ast.Name) and n.id == ctx.acc for n in ast.walk(test)):
                self.refuse(ctx, test, 'a test on the accumulator of written molecules that is not `> 0`')
        if ctx.got_var is not None:
            if isinstance(test, ast.Compare) and len(test.ops) == 1 and isinstance(test.left, ast.Name) \
                    and test.left.id == ctx.got_var and isinstance(test.comparators[0], ast.Constant) \
                    and test.comparators[0].value is None:
                if isinstance(test.ops[0], ast.IsNot):
                    return 'GGot', neg
                if isinstance(test.ops[0], ast.Is):
                    return 'GGot', not neg
            if any(isinstance(n, ast.Name) and n.id == ctx.got_var for n in ast.walk(test)):
                self.refuse(ctx, test, 'a test on the returned temp BAM path that is not `is (not) None`')
        return None

    def seq(self, terms):
        if not terms:
            return 'Skip'
        if len(terms) == 1:
            return terms[0]
        return 'seq_of [' + '; '.join(terms) + ']'

    def stmt(self, ctx, s, in_loop):
        if isinstance(s, (ast.FunctionDef, ast.Import, ast.ImportFrom, ast.Pass, ast.Nonlocal, ast.Global)):
            return []
        if isinstance(s, ast.Expr) and isinstance(s.value, ast.Constant):
            return []   # docstring / string statement
        if isinstance(s, (ast.Expr, ast.Assign, ast.AugAssign, ast.AnnAssign, ast.Assert, ast.Delete)):
            data = self.data_stmt(ctx, s)
            if data is not None:
                return data
            if isinstance(s, ast.Assign):
                for t in s.targets:
                    for n in ast.walk(t):
                        if isinstance(n, ast.expr) and (dump(n) in ctx.out or dump(n) in ctx.idx) and not ctx.allow_out_assign:
                            self.refuse(ctx, s, 'the output path is re-assigned')
                        if isinstance(n, ast.Name) and n.id in ctx.handles:
                            self.refuse(ctx, s, 'the output handle is re-assigned')
                # name bound to a stream of worker results
                if len(s.targets) == 1 and isinstance(s.targets[0], ast.Name):
                    if any(isinstance(n, ast.Name) and n.id == 'run_tagging_tasks' for n in ast.walk(s.value)):
                        ctx.unit_iters.add(s.targets[0].id)
                        # the calls inside a generator expression run lazily, at the loop header
                        if isinstance(s.value, ast.GeneratorExp):
                            return []
            return self.expr_steps(ctx, s)
        if isinstance(s, ast.Return):
            if ctx.ret_ok:
                if ctx.no_flow:
                    self.refuse(ctx, s, 'return inside the with sorted_bam_file block (its exit code would run)')
                v = s.value
                if not (isinstance(v, ast.Tuple) and len(v.elts) == 2 and isinstance(v.elts[1], ast.Name)
                        and v.elts[1].id == ctx.meta_var):
                    self.refuse(ctx, s, 'return value is not (<path or None>, meta)')
                if ctx.is_out(v.elts[0]):
                    return ['Return VPath']
                if isinstance(v.elts[0], ast.Constant) and v.elts[0].value is None:
                    return ['Return VNone']
                self.refuse(ctx, s, 'first component of the return value is neither the temp BAM path nor None')
            if s is not ctx.fdef.body[-1]:
                self.refuse(ctx, s, 'return before the end of the function')
            return self.expr_steps(ctx, s) if s.value is not None else []
        if isinstance(s, ast.Raise):
            pre = self.expr_steps(ctx, s)
            return pre + ['Raise %d %s' % (self.label(ctx.fname, 'raise'), self.raise_kind(s))]
        if isinstance(s, ast.If):
            return self.if_stmt(ctx, s, in_loop)
        if isinstance(s, ast.For):
            return self.for_stmt(ctx, s)
        if isinstance(s, ast.While):
            if self.calls_with_steps(ctx, s):
                self.refuse(ctx, s, 'while loop with side effects')
            return []
        if isinstance(s, ast.With):
            return self.with_stmt(ctx, s, in_loop)
        if isinstance(s, ast.Try):
            return self.try_stmt(ctx, s, in_loop)
        if isinstance(s, (ast.Break, ast.Continue)):
            if not in_loop:
                self.refuse(ctx, s, 'break/continue outside a translated loop')
            return ['Break' if isinstance(s, ast.Break) else 'Continue']
        self.refuse(ctx, s, 'statement kind %s not supported' % type(s).__name__)

    RAISE_KIND = {'ValueError': 'KValue', 'RuntimeError': 'KRuntime', 'NotImplementedError': 'KRuntime',
                  'OSError': 'KOS', 'IOError': 'KOS', 'FileNotFoundError': 'KOS', 'TimeoutError': 'KTimeout',
                  'MemoryError': 'KMemory', 'KeyboardInterrupt': 'KBase', 'SystemExit': 'KBase'}
    HANDLER_CLASS = {'BaseException': 'HBase', 'Exception': 'HException', 'OSError': 'HOS', 'IOError': 'HOS',
                     'EnvironmentError': 'HOS', 'TimeoutError': 'HTimeout', 'ValueError': 'HValue',
                     'RuntimeError': 'HRuntime', 'MemoryError': 'HMemory', 'KeyboardInterrupt': 'HKeyboard'}

    def raise_kind(self, s):
        e = s.exc
        if isinstance(e, ast.Call):
            e = e.func
        return self.RAISE_KIND.get(dotted(e) if e is not None else None, 'KOther')

    def handler_classes(self, ctx, s, h):
        """the exception classes an except clause names -> list of StatusLang.hclass (fail closed)"""
        if h.type is None:
            return ['HBase']
        elts = h.type.elts if isinstance(h.type, ast.Tuple) else [h.type]
        out = []
        for e in elts:
            n = dotted(e)
            if n not in self.HANDLER_CLASS:
                self.refuse(ctx, s, 'except clause for a class outside the modelled hierarchy: %s' % ast.unparse(e))
            out.append(self.HANDLER_CLASS[n])
        return out

    def calls_with_steps(self, ctx, node):
        save = (list(self.labels), dict(self.label_count))
        try:
            return bool(self.expr_steps(ctx, node))
        finally:
            self.labels, self.label_count = save

    def if_stmt(self, ctx, s, in_loop):
        # `if head is not None and ...: [print]; break`  -- the -head option truncates on purpose
        if in_loop and not s.orelse and isinstance(s.body[-1], ast.Break) and \
                any(isinstance(n, ast.Name) and n.id == 'head' for n in ast.walk(s.test)) and \
                all(isinstance(b, ast.Expr) and dotted(getattr(b.value, 'func', None)) == 'print' for b in s.body[:-1]):
            self.notes.append('%s: `%s: break` ignored (assumption: -head not given)' % (ctx.fname, ast.unparse(s.test)))
            return []
        pre = self.expr_steps(ctx, s.test)
        g = self.guard_of(ctx, s.test)
        if g is not None:
            a = self.walk(ctx, s.body, in_loop)
            b = self.walk(ctx, s.orelse, in_loop)
            if g[1]:
                a, b = b, a
            return pre + ['IfW %s (%s) (%s)' % (g[0], self.seq(a), self.seq(b))]
        cluster = ctx.fname == 'run_multiome_tagging' and ast.unparse(s.test) == 'args.cluster'
        if cluster:
            self.cluster_branch(ctx, s)
        a = self.walk(ctx, s.body, in_loop)
        b = self.walk(ctx, s.orelse, in_loop)
        if not a and not b:
            return pre
        cid = self.choice_id(ctx.fname, s.test)
        if cluster:
            self.special['cluster'] = cid
            ids = [i for i, n in enumerate(self.choices) if n == 'run_multiome_tagging: args.contig is None' and i < cid]
            # (choice ids are given after the branches were walked: the nested test has the smaller id)
            if not ids:
                raise Untranslatable('the --cluster branch is not guarded by an `args.contig is None` test')
            self.special['cluster_contig_none'] = ids[-1]
        return pre + ['Choice %d (%s) (%s)' % (cid, self.seq(a), self.seq(b))]

    def cluster_branch(self, ctx, s):
        """role checks for `if args.cluster:` (job submission): the only statement is `if args.contig is None:`,
        it ends with exit(), it never writes the success marker (neither directly nor in a submitted command)"""
        if len(s.body) != 1 or not isinstance(s.body[0], ast.If) or ast.unparse(s.body[0].test) != 'args.contig is None' \
                or s.body[0].orelse or s.orelse:
            self.refuse(ctx, s, 'shape of the --cluster branch')
        inner = s.body[0]
        last = inner.body[-1]
        if not (isinstance(last, ast.Expr) and isinstance(last.value, ast.Call) and dotted(last.value.func) in ('exit', 'sys.exit')):
            self.refuse(ctx, s, 'the --cluster branch does not end with exit()')
        for n in ast.walk(inner):
            if isinstance(n, ast.Constant) and isinstance(n.value, str) and OK_MESSAGE.lower()[:11] in n.value.lower():
                self.refuse(ctx, s, 'the --cluster branch mentions the success message')
        self.notes.append('run_multiome_tagging: --cluster branch translated; the submitted jobs (per-contig taggers writing '
                          'their own status files, the final merge job that writes "All done") run outside this process '
                          'and are not part of the model')

    def for_stmt(self, ctx, s):
        if s.orelse:
            self.refuse(ctx, s, 'for/else')
        # (1) loop over a literal list: unrolled, the loop variable stands for each element
        if isinstance(s.iter, (ast.List, ast.Tuple)) and isinstance(s.target, ast.Name):
            out = []
            for e in s.iter.elts:
                out += self.expr_steps(ctx, e)
            for e in s.iter.elts:
                ctx.alias[s.target.id] = e
                out += self.walk(ctx, s.body, in_loop=False)
                del ctx.alias[s.target.id]
            return out
        # (2) the retry loop of sort_and_index
        r = self.retry_loop(ctx, s)
        if r is not None:
            return r
        # (3) general loop
        pre = self.expr_steps(ctx, s.iter)
        hdr = 'ENop'
        names = [n.id for n in ast.walk(s.iter) if isinstance(n, ast.Name)]
        spawn = any(n in ctx.unit_iters for n in names)
        mark = (len(self.labels), dict(self.label_count), len(self.loops), len(self.choices))
        lbl = self.label(ctx.fname, 'next(%s)' % ast.unparse(s.iter)[:40])
        lid = self.loop_id(ctx.fname, s)
        first = []
        if spawn:
            # one result of the pool / of the lazily evaluated generator: the worker program runs, then the
            # loop target is bound to what it returned
            if not (isinstance(s.target, ast.Tuple) and len(s.target.elts) == 2 and all(isinstance(e, ast.Name) for e in s.target.elts)):
                self.refuse(ctx, s, 'the loop over worker results does not unpack (bam, meta)')
            if 'worker_full' not in dict(self.defs):
                self.refuse(ctx, s, 'worker results used before run_tagging_tasks was translated')
            ctx.got_var = s.target.elts[0].id
            ctx.keep_list = self.merge_list(ctx)
            self.check_timeouts_read(ctx, s, s.target.elts[1].id)
            first = ['Spawn %d worker_full' % self.label(ctx.fname, 'run_tagging_tasks')]
        saved = ctx.loop_var
        if isinstance(s.target, ast.Name):
            ctx.loop_var = s.target.id
        body = first + self.walk(ctx, s.body, in_loop=True)
        ctx.loop_var = saved
        if spawn:
            if not any('EKeep' in b for b in body):
                self.refuse(ctx, s, 'the returned temp BAM is never put on the merge list')
            ctx.got_var = None
        if not body and hdr == 'ENop' and not pre:
            # a loop without any call: no crash point, no effect
            self.labels = self.labels[:mark[0]]
            self.label_count = mark[1]
            self.loops = self.loops[:mark[2]]
            self.choices = self.choices[:mark[3]]
            return []
        return pre + ['Loop %d %d %s (%s)' % (lid, lbl, hdr, self.seq(body))]

    def merge_list(self, ctx):
        """name of the list whose content is handed to merge_bams (role check for EKeep): merge_bams(list(M) | M, out)
        with M = [<header bam>] + L  or  M = L"""
        calls = [n for n in ast.walk(ctx.fdef) if isinstance(n, ast.Call) and dotted(n.func) == 'merge_bams']
        if len(calls) != 1 or not calls[0].args:
            raise Untranslatable('%s: expected exactly one merge_bams call' % ctx.fname)
        a = calls[0].args[0]
        if isinstance(a, ast.Call) and dotted(a.func) == 'list' and len(a.args) == 1:
            a = a.args[0]
        if not isinstance(a, ast.Name):
            raise Untranslatable('%s: first argument of merge_bams is not a name' % ctx.fname)
        vals = ctx.assigned.get(a.id, [])
        if len(vals) != 1:
            raise Untranslatable('%s: %s is assigned %d times' % (ctx.fname, a.id, len(vals)))
        v = vals[0]
        if isinstance(v, ast.BinOp) and isinstance(v.op, ast.Add) and isinstance(v.left, ast.List) and isinstance(v.right, ast.Name):
            v = v.right
        if isinstance(v, ast.Name):
            a = v
            vals = ctx.assigned.get(a.id, [])
            if len(vals) != 1:
                raise Untranslatable('%s: %s is assigned %d times' % (ctx.fname, a.id, len(vals)))
            v = vals[0]
        if not (isinstance(v, ast.List) and not v.elts):
            raise Untranslatable('%s: the merge list %s does not start empty' % (ctx.fname, a.id))
        return a.id

    def check_timeouts_read(self, ctx, s, meta):
        """the parent reads the reported tasks from the worker's meta and blacklists them in the header
        (what "reported" means for the output; the header itself is read back by the correspondence check)"""
        ok = False
        for n in ast.walk(s):
            if isinstance(n, ast.For):
                it = n.iter
                src = [it] + (ctx.assigned.get(it.id, []) if isinstance(it, ast.Name) else [])
                reads = any(isinstance(m, ast.Constant) and m.value == self.report_key for e in src for m in ast.walk(e)) and \
                    any(isinstance(m, ast.Name) and m.id == meta for e in src for m in ast.walk(e))
                if reads and any(isinstance(c, ast.Call) and dotted(c.func) == 'add_blacklisted_region' for c in ast.walk(n)):
                    ok = True
        if not ok:
            self.refuse(ctx, s, 'the parent does not blacklist the tasks the worker reports as timed out')

    def retry_loop(self, ctx, s):
        """for i, p in enumerate(L): failed=False; try: X except Exception: ...; failed=True; if i==len(L)-1: raise
                                   if not failed: break          with L a literal list of length n
           ==  try X (first path) except: try X (second path) except: X (last path)"""
        it = s.iter
        if not (isinstance(it, ast.Call) and dotted(it.func) == 'enumerate' and len(it.args) == 1
                and isinstance(it.args[0], ast.Name)):
            return None
        lname = it.args[0].id
        if not any(isinstance(n, ast.Try) for n in s.body):
            return None
        vals = ctx.assigned.get(lname, [])
        if len(vals) != 1 or not isinstance(vals[0], (ast.List, ast.Tuple)):
            self.refuse(ctx, s, 'retry loop over something that is not a literal list')
        n = len(vals[0].elts)
        if not (isinstance(s.target, ast.Tuple) and len(s.target.elts) == 2 and all(isinstance(e, ast.Name) for e in s.target.elts)):
            self.refuse(ctx, s, 'retry loop target')
        ivar = s.target.elts[0].id
        body = s.body
        ok = (len(body) == 3 and isinstance(body[0], ast.Assign) and ast.unparse(body[0]) == 'failed = False'
              and isinstance(body[1], ast.Try) and isinstance(body[2], ast.If)
              and ast.unparse(body[2].test) == 'not failed' and len(body[2].body) == 1 and isinstance(body[2].body[0], ast.Break)
              and not body[2].orelse)
        if not ok:
            self.refuse(ctx, s, 'retry loop shape')
        t = body[1]
        if t.finalbody or t.orelse or len(t.handlers) != 1:
            self.refuse(ctx, s, 'retry loop try shape')
        h = t.handlers[0]
        if not (isinstance(h.type, ast.Name) and h.type.id == 'Exception'):
            self.refuse(ctx, s, 'retry loop handler type')
        hb = [x for x in h.body if not (isinstance(x, ast.Expr) and dotted(getattr(x.value, 'func', None)) == 'print')]
        ok = (len(hb) == 2 and ast.unparse(hb[0]) == 'failed = True' and isinstance(hb[1], ast.If)
              and ast.unparse(hb[1].test).replace(' ', '') == '%s==len(%s)-1' % (ivar, lname)
              and len(hb[1].body) == 1 and isinstance(hb[1].body[0], ast.Raise) and hb[1].body[0].exc is None
              and not hb[1].orelse)
        if not ok:
            self.refuse(ctx, s, 'retry loop handler shape')
        attempts = [self.seq(self.walk(ctx, t.body)) for _ in range(n)]
        term = attempts[-1]
        for a in reversed(attempts[:-1]):
            term = 'Try (%s) (%s) false [HException]' % (a, term)
        self.notes.append('%s: retry loop over %d temp paths translated as nested try' % (ctx.fname, n))
        return [term]

    def with_stmt(self, ctx, s, in_loop):
        out = []
        post = []
        for item in s.items:
            ce = item.context_expr
            if isinstance(ce, ast.Call) and dotted(ce.func) == 'sorted_bam_file':
                fdef = self.funcs.get((BF, 'sorted_bam_file'))
                if fdef is None:
                    self.refuse(ctx, s, 'sorted_bam_file not found')
                bound = self.bind(fdef, ce, 'write_path')
                if bound is not None and ctx.is_out(bound):
                    for a in list(ce.args) + [k.value for k in ce.keywords]:
                        if a is not bound:
                            if ctx.mentions_out(a):
                                self.refuse(ctx, s, 'sorted_bam_file receives the output path twice')
                            out += self.expr_steps(ctx, a)
                    self.build('sorted_bam_file')
                    if not isinstance(item.optional_vars, ast.Name):
                        self.refuse(ctx, s, 'with sorted_bam_file(...) without `as name`')
                    ctx.handles.add(item.optional_vars.id)
                    out.append('sorted_bam_file_pre')
                    post.insert(0, 'sorted_bam_file_post')
                    continue
            out += self.expr_steps(ctx, ce)
        if post:
            # leaving the block by break / continue / return would run the exit code: not translated
            ctx.no_flow += 1
            out += self.walk(ctx, s.body, in_loop=False)
            ctx.no_flow -= 1
        else:
            out += self.walk(ctx, s.body, in_loop)
        return out + post

    def try_stmt(self, ctx, s, in_loop):
        if s.finalbody or s.orelse:
            self.refuse(ctx, s, 'try with finally/else')
        if len(s.handlers) != 1:
            self.refuse(ctx, s, 'try with several handlers')
        h = s.handlers[0]
        body = self.walk(ctx, s.body, in_loop)
        hcs = '[' + '; '.join(self.handler_classes(ctx, s, h)) + ']'
        hb = list(h.body)
        reraise = 'false'
        if hb and isinstance(hb[-1], ast.Raise):
            r = hb.pop()
            if r.exc is not None and not (isinstance(r.exc, ast.Name) and r.exc.id == h.name):
                self.refuse(ctx, s, 'handler raises a different exception')
            reraise = 'true'
        for x in hb:
            for n in ast.walk(x):
                if isinstance(n, (ast.Raise, ast.Return, ast.Break, ast.Continue)):
                    self.refuse(ctx, s, 'control flow inside an except handler')
        handler = self.walk(ctx, hb, in_loop=False)
        if not body:
            return []
        return ['Try (%s) (%s) %s %s' % (self.seq(body), self.seq(handler), reraise, hcs)]

    # ---------------------------------------------------------------- functions
    def build(self, name):
        if name in self.built:
            if self.built[name] is None:
                raise Untranslatable('recursion through %s' % name)
            return
        self.built[name] = None
        rel, param = INLINE[name]
        fdef = self.funcs[(rel, name)]
        ctx = Ctx(self, name, fdef, [ast.Name(param, ast.Load())], rel)
        self.check_signature(ctx, fdef, param)
        if name == 'sorted_bam_file':
            self.build_cm(ctx, fdef)
        else:
            self.finish_def('%s_body' % name, self.seq(self.walk(ctx, fdef.body)))
        self.record(rel, fdef)
        self.built[name] = True

    def check_signature(self, ctx, fdef, param):
        # the output-path parameter must not be rebound inside the function
        for n in ast.walk(fdef):
            if isinstance(n, ast.Name) and n.id == param and isinstance(n.ctx, (ast.Store, ast.Del)):
                self.refuse(ctx, n, 'parameter %s is re-assigned' % param)

    def build_cm(self, ctx, fdef):
        decos = [dotted(d) for d in fdef.decorator_list]
        if decos != ['contextlib.contextmanager']:
            self.refuse(ctx, fdef, 'sorted_bam_file is not a plain contextlib.contextmanager')
        idx = [i for i, s in enumerate(fdef.body) if isinstance(s, ast.Expr) and isinstance(s.value, ast.Yield)]
        nyield = sum(1 for n in ast.walk(fdef) if isinstance(n, (ast.Yield, ast.YieldFrom)))
        if len(idx) != 1 or nyield != 1:
            # a yield inside try/finally would make the exit code run after a failure too
            self.refuse(ctx, fdef, 'the yield of sorted_bam_file is not a top-level statement of the function')
        i = idx[0]
        pre = self.walk(ctx, fdef.body[:i])
        post = self.walk(ctx, fdef.body[i + 1:])
        self.finish_def('sorted_bam_file_pre', self.seq(pre))
        self.finish_def('sorted_bam_file_post', self.seq(post))

    def record(self, rel, fdef):
        tree, src = self.trees[rel]
        seg = ast.get_source_segment(src, fdef) or ''
        self.meta.append({'file': rel, 'function': fdef.name, 'lines': [fdef.lineno, fdef.end_lineno],
                          'sha256': hashlib.sha256(seg.encode()).hexdigest()})

    def build_all(self):
        # write_status naming rule and content (read back by the correspondence check)
        ws = self.funcs.get((TM, 'write_status'))
        if ws is None:
            raise Untranslatable('write_status not found')
        norm = ast.unparse(ws).replace('"', "'")
        want = ("def write_status(output_path, message):\n    status_path = output_path.replace('.bam', '.status.txt')\n"
                "    with open(status_path, 'w') as o:\n        o.write(message + '\\n')")
        if norm != want:
            raise Untranslatable('write_status changed: %r' % norm)
        self.record(TM, ws)
        cmd = self.funcs.get((TM, 'run_multiome_tagging_cmd'))
        if cmd is None or [ast.unparse(x) for x in cmd.body] != ['args = argparser.parse_args(commandline)', 'run_multiome_tagging(args)']:
            raise Untranslatable('run_multiome_tagging_cmd changed')
        # worker: the whole body of run_tagging_tasks, run_tagging_task inlined
        self.build_worker()
        # main
        run = self.funcs.get((TM, 'run_multiome_tagging'))
        if run is None:
            raise Untranslatable('run_multiome_tagging not found')
        out = ast.parse('args.o', mode='eval').body
        ctx = Ctx(self, 'run_multiome_tagging', run, [out], TM)
        for n in ast.walk(run):
            if isinstance(n, ast.Attribute) and isinstance(n.ctx, (ast.Store, ast.Del)) and ast.unparse(n) == 'args.o':
                self.refuse(ctx, n, 'args.o is re-assigned')
        self.finish_def('pipeline', self.seq(self.walk(ctx, run.body)))
        self.record(TM, run)
        for need in ('tag_multiome_single_thread', 'tag_multiome_multi_processing', 'sorted_bam_file', 'sort_and_index', 'merge_bams'):
            if not self.built.get(need):
                raise Untranslatable('%s is not reached from run_multiome_tagging with the output path' % need)

    def build_task(self):
        """run_tagging_task, inlined where the worker calls it with the output handle"""
        if 'run_tagging_task' in self.built:
            if self.built['run_tagging_task'] is None:
                raise Untranslatable('recursion through run_tagging_task')
            return
        self.built['run_tagging_task'] = None
        fdef = self.funcs[(TG, 'run_tagging_task')]
        ctx = Ctx(self, 'run_tagging_task', fdef, [], TG)
        ctx.handles.add('output')
        for n in ast.walk(fdef):
            if isinstance(n, ast.Name) and n.id == 'output' and isinstance(n.ctx, (ast.Store, ast.Del)):
                self.refuse(ctx, n, 'parameter output is re-assigned')
        # the molecule count the task reports: return {KEY: COUNTER, ...} as the last statement
        last = fdef.body[-1]
        rets = [n for n in walk_own(fdef) if isinstance(n, ast.Return)]
        if not (isinstance(last, ast.Return) and rets == [last] and isinstance(last.value, ast.Dict)):
            self.refuse(ctx, last, 'run_tagging_task does not end with its only return of a dict literal')
        found = [(k.value, v.id) for k, v in zip(last.value.keys, last.value.values)
                 if isinstance(k, ast.Constant) and isinstance(v, ast.Name) and 'molecules' in str(k.value)]
        if len(found) != 1:
            self.refuse(ctx, last, 'the returned statistics do not contain exactly one molecule count')
        self.task_key, ctx.counter = found[0]
        self.task_counter = ctx.counter
        term = self.seq(self.walk(ctx, fdef.body))
        for need in ('ECntReset', 'ECntInc', 'EUnit'):
            if need not in term:
                self.refuse(ctx, fdef, 'run_tagging_task: no %s step found' % need)
        self.check_counter_follows_write(ctx, fdef)
        self.finish_def('run_tagging_task_body', term)
        self.record(TG, fdef)
        self.built['run_tagging_task'] = True

    def check_counter_follows_write(self, ctx, fdef):
        """role check: `COUNTER += 1` is a statement of the same block as the write_pysam if-chain, after it and not
        under a further condition (every written molecule is counted)"""
        for n in ast.walk(fdef):
            for blk in (getattr(n, 'body', None), getattr(n, 'orelse', None)):
                if not isinstance(blk, list):
                    continue
                inc = [i for i, x in enumerate(blk) if isinstance(x, ast.AugAssign) and isinstance(x.target, ast.Name)
                       and x.target.id == ctx.counter]
                if inc:
                    wr = [i for i, x in enumerate(blk) if any(isinstance(c, ast.Call) and dotted(c.func) and
                                                              dotted(c.func).endswith('write_pysam') for c in ast.walk(x))]
                    if len(inc) == 1 and wr and max(wr) < inc[0] and isinstance(n, ast.For):
                        return
                    self.refuse(ctx, blk[inc[0]], 'the molecule counter is not incremented right after the molecule is written')
        self.refuse(ctx, fdef, 'no increment of the molecule counter found')

    def build_worker(self):
        rt = self.funcs.get((TG, 'run_tagging_tasks'))
        if rt is None:
            raise Untranslatable('run_tagging_tasks not found')
        withs = [i for i, s in enumerate(rt.body) if isinstance(s, ast.With)]
        if len(withs) != 1:
            raise Untranslatable('run_tagging_tasks: expected one top-level with block')
        wi = withs[0]
        ctx = Ctx(self, 'run_tagging_tasks', rt, [ast.Name('target_file', ast.Load())], TG)
        ctx.ret_ok = True
        # (1) preamble: argument unpacking, naming of the temp BAM (uuid4 + collision loop), initial values; the
        #     temp BAM path may only be assigned here
        pre_stmts, rest = rt.body[:wi], rt.body[wi:]
        for n in rest:
            for m in ast.walk(n):
                if isinstance(m, ast.Name) and m.id == 'target_file' and isinstance(m.ctx, (ast.Store, ast.Del)):
                    self.refuse(ctx, m, 'the temp BAM path is re-assigned after the naming preamble')
        if not any(isinstance(x, ast.Assign) and any(isinstance(t, ast.Name) and t.id == 'target_file' for t in x.targets)
                   and any(isinstance(c, ast.Call) and dotted(c.func) in ('uuid4', 'uuid.uuid4') for c in ast.walk(x.value))
                   for x in pre_stmts):
            self.refuse(ctx, rt, 'the temp BAM of a worker is not named by uuid4 (a fresh file is assumed)')
        # (2) roles: meta = {'timeout_tasks': L, ...}; L = []; accumulator A = 0, fed from the task's statistics
        metas = [x for x in rest if isinstance(x, ast.Assign) and isinstance(x.value, ast.Dict) and len(x.targets) == 1
                 and isinstance(x.targets[0], ast.Name)]
        rets = [n for n in walk_own(rt) if isinstance(n, ast.Return)]
        meta = None
        for x in metas:
            if all(isinstance(r.value, ast.Tuple) and len(r.value.elts) == 2 and isinstance(r.value.elts[1], ast.Name)
                   and r.value.elts[1].id == x.targets[0].id for r in rets) and rets:
                meta = x
        if meta is None or len(ctx.assigned.get(meta.targets[0].id, [])) != 1:
            self.refuse(ctx, rt, 'run_tagging_tasks: the meta dict returned with the path was not found')
        ctx.meta_var = meta.targets[0].id
        rep = [(k.value, v.id) for k, v in zip(meta.value.keys, meta.value.values)
               if isinstance(k, ast.Constant) and isinstance(v, ast.Name) and 'timeout' in str(k.value)]
        if len(rep) != 1:
            self.refuse(ctx, meta, 'meta does not contain exactly one list of timed-out tasks')
        self.report_key, ctx.report_list = rep[0]
        vals = ctx.assigned.get(ctx.report_list, [])
        if not (len(vals) == 1 and isinstance(vals[0], ast.List) and not vals[0].elts):
            self.refuse(ctx, meta, 'the list of timed-out tasks does not start empty')
        self.build_task()
        # the accumulator: the augmented assignment fed from <stat>.get(<task key>, 0), <stat> = run_tagging_task(...)
        accs = []
        for n in ast.walk(rt):
            if isinstance(n, ast.AugAssign) and isinstance(n.target, ast.Name):
                for m in ast.walk(n.value):
                    if isinstance(m, ast.Constant) and m.value == self.task_key:
                        accs.append(n)
        if len(accs) != 1:
            self.refuse(ctx, rt, 'expected exactly one accumulation of %r' % self.task_key)
        ctx.acc = accs[0].target.id
        stats = [x.targets[0].id for x in ast.walk(rt) if isinstance(x, ast.Assign) and len(x.targets) == 1
                 and isinstance(x.targets[0], ast.Name) and isinstance(x.value, ast.Call) and dotted(x.value.func) == 'run_tagging_task']
        if len(stats) != 1:
            self.refuse(ctx, rt, 'expected exactly one `<stat> = run_tagging_task(...)`')
        ctx.acc_from = (stats[0], self.task_key)
        self.check_acc_follows_task(ctx, rt, stats[0])
        ctx.allow_out_assign = True
        pre = []
        for x in pre_stmts:
            if isinstance(x, ast.While):
                if self.calls_with_steps(ctx, x):
                    self.refuse(ctx, x, 'while loop with side effects')
                continue
            if not isinstance(x, (ast.Assign, ast.Expr, ast.AnnAssign)):
                self.refuse(ctx, x, 'statement kind %s in the naming preamble' % type(x).__name__)
            pre += self.stmt(ctx, x, False)
        ctx.allow_out_assign = False
        if not ctx.acc_seen:
            self.refuse(ctx, rt, 'the accumulator %s is not initialised to 0 before the with block' % ctx.acc)
        body = self.walk(ctx, rest)
        term = self.seq(pre + body)
        for need in ('Return VPath', 'Return VNone', 'IfW GTotal', 'EAccum', 'EReport', 'run_tagging_task_body'):
            if need not in term:
                self.refuse(ctx, rt, 'run_tagging_tasks: no %s found' % need)
        if not isinstance(rt.body[-1], ast.Return) and not (isinstance(rt.body[-1], ast.If) and self.all_paths_return(rt.body[-1])):
            self.refuse(ctx, rt, 'run_tagging_tasks can fall off its end without returning (path, meta)')
        self.finish_def('worker_full', term)
        self.record(TG, rt)

    def all_paths_return(self, s):
        def blk(b):
            if not b:
                return False
            x = b[-1]
            return isinstance(x, ast.Return) or (isinstance(x, ast.If) and blk(x.body) and blk(x.orelse))
        return blk(s.body) and blk(s.orelse)

    def check_acc_follows_task(self, ctx, rt, stat):
        """role check: the accumulation is the statement right after `<stat> = run_tagging_task(...)` in the same block
        (the count of every task that returns is added)"""
        for n in ast.walk(rt):
            for blk in (getattr(n, 'body', None), getattr(n, 'orelse', None)):
                if not isinstance(blk, list):
                    continue
                for i, x in enumerate(blk):
                    if isinstance(x, ast.Assign) and len(x.targets) == 1 and isinstance(x.targets[0], ast.Name) \
                            and x.targets[0].id == stat:
                        nxt = blk[i + 1] if i + 1 < len(blk) else None
                        if isinstance(nxt, ast.AugAssign) and isinstance(nxt.target, ast.Name) and nxt.target.id == ctx.acc:
                            return
                        self.refuse(ctx, x, 'the molecule count of a finished task is not added to the accumulator right away')
        self.refuse(ctx, rt, 'call of run_tagging_task not found')

    def coq(self):
        L = ['(* GENERATED by tools/c20gen.py from %s, %s, %s -- do not edit; regenerated on every run *)' % (TM, BF, TG),
             'From Coq Require Import List Bool.', 'Import ListNotations.', 'From SCMO Require Import Lib.StatusLang.', '']
        L.append('(* labels (Step / Loop header):')
        for i, n in enumerate(self.labels):
            L.append('   %d  %s' % (i, n.replace('(*', '( *').replace('*)', '* )')))
        L.append('   loops:')
        for i, n in enumerate(self.loops):
            L.append('   %d  %s' % (i, n.replace('(*', '( *').replace('*)', '* )')))
        L.append('   choices:')
        for i, n in enumerate(self.choices):
            L.append('   %d  %s' % (i, n.replace('(*', '( *').replace('*)', '* )')))
        L.append('*)')
        for name, term in self.defs:
            L.append('Definition %s : prog :=\n  %s.\n' % (name, term))
        t = self.std_choices()
        L.append('(* branch outcomes of a standard run (local sort, read groups, no samtools binary, pool) *)')
        L.append('Definition ch_true_single : list nat := [%s].' % '; '.join(str(i) for i in t['single']))
        L.append('Definition ch_true_multi : list nat := [%s].' % '; '.join(str(i) for i in t['multi']))
        L.append('Definition id_ch_multiprocess : nat := %d.' % t['id_mp'])
        L.append('Definition id_ch_tempfiles : nat := %d.' % t['id_tmp'])
        for k, name in (('tasks', 'run_tagging_tasks: for task in arglist'), ('jobs', LOOP_JOBS)):
            ids = [i for i, n in enumerate(self.loops) if n == name]
            if len(ids) != 1:
                raise Untranslatable('expected exactly one loop %r' % name)
            L.append('Definition id_loop_%s : nat := %d.' % (k, ids[0]))
        for k, pat in (('task_next', 'run_tagging_task/next(enumerate('), ('task_inc', 'run_tagging_task/%s+=1#' % self.task_counter)):
            ids = [i for i, n in enumerate(self.labels) if n.startswith(pat)]
            if len(ids) != 1:
                raise Untranslatable('expected exactly one step %r' % pat)
            L.append('Definition lbl_%s : nat := %d.' % (k, ids[0]))
        for k in ('cluster', 'cluster_contig_none'):
            if k not in self.special:
                raise Untranslatable('the --cluster branch of run_multiome_tagging was not found')
            L.append('Definition id_ch_%s : nat := %d.' % (k, self.special[k]))
        return '\n'.join(L) + '\n'


STD_TRUE = [
    'sorted_bam_file: header is not None', 'sorted_bam_file: read_groups is not None',
    'sorted_bam_file: input_is_sorted is False', 'sort_and_index: local_temp_sort', 'sort_and_index: remove_unsorted',
    'run_multiome_tagging: not args.ignore_bam_issues', 'run_multiome_tagging: args.ref is None',
    'tag_multiome_multi_processing: use_pool', 'tag_multiome_multi_processing: len(meta)',
    "merge_bams: which('samtools') is None", 'tag_multiome_single_thread: not no_source_reads',
    'tag_multiome_single_thread: not rgid in read_groups',
    "run_multiome_tagging: args.method == 'nla' or args.method == 'nla_no_overhang'",
    'run_tagging_task: consensus_mode is None', 'run_tagging_task: read_groups is not None', 'run_tagging_task: fetching',
    'run_tagging_task: enable_prefetch', 'run_tagging_task: not rgid in read_groups',
]


def _std_choices(self):
    names = self.choices
    missing = [t for t in STD_TRUE if t not in names]
    if missing:
        raise Untranslatable('run-time tests not found any more: %r' % missing)
    def one(test):
        ids = [i for i, n in enumerate(names) if n == test]
        if len(ids) != 1:
            raise Untranslatable('expected exactly one test %r, found %d' % (test, len(ids)))
        return ids[0]
    mp = one('run_multiome_tagging: args.multiprocess')
    tmp = one('run_multiome_tagging: len(tempfiles)')
    base = [i for i, n in enumerate(names) if n in STD_TRUE]
    return {'single': base, 'multi': sorted(base + [mp]), 'id_mp': mp, 'id_tmp': tmp}


Gen.std_choices = _std_choices


def generate(repo):
    g = Gen(repo)
    g.build_all()
    return g


# =============================================================================================
# the check
# =============================================================================================
import json, time, itertools
from concurrent.futures import ThreadPoolExecutor
import fw

GEN_PATH = os.path.join(fw.COQ, 'Gen', 'GenStatus.v')
ST_NAMES = ['none', 'unfinished', 'FAIL', 'OK', 'other']
# model kind codes (StatusLang.ekind): KRuntime 0, KValue 1, KOS 2, KTimeout 3, KMemory 4, KOther 5, KBase 6
EXC_KIND = {'RuntimeError': 0, 'ValueError': 1, 'ENOSPC': 2, 'EIO': 2, 'IOError': 2, 'TimeoutError': 3,
            'MemoryError': 4, None: 5, 'Injected': 5, 'KeyboardInterrupt': 6, 'InjectedBase': 6}
EXC_MAIN = ['RuntimeError', 'ValueError', 'ENOSPC', 'EIO', 'IOError', 'MemoryError', 'KeyboardInterrupt', None]
# inside pool workers: no KeyboardInterrupt (multiprocessing.Pool then hangs: outside the model) and no
# TimeoutError (swallowed on purpose by run_tagging_tasks: -max_time_per_segment)
EXC_WORKER = ['RuntimeError', 'ValueError', 'ENOSPC', 'EIO', 'IOError', 'MemoryError', None]


def fault_code(f):
    """model fault code of an injected fault: 100 + kind (raised before any effect) / 200 + kind (after a
    partial effect); SIGKILL is compared with a non-Exception (no handler runs)"""
    kind = f.get('kind', 'exc')
    if kind in ('base', 'base_partial', 'kill'):
        k = 6
    else:
        k = EXC_KIND[f.get('exc')]
    return (200 if kind in ('partial', 'base_partial') else 100) + k


W_POINTS = ('worker', 'sort_worker', 'rg_header_worker', 'w_open', 'index_worker', 'w_remove_bam', 'w_remove_bai', 'w_prefetch')


def worker_side(f, mp):
    return f.get('where') == 'worker' or 'jobkey' in f or f['point'] in W_POINTS or \
        (mp and f['point'] in ('write_pysam', 'write_tags', 'mol_next', 'mol_end'))

CONFIGS = {
    'chic_s': {'method': 'chic', 'bam': 'chic', 'mp': False},
    'chic_m': {'method': 'chic', 'bam': 'chic', 'mp': True, 'ref_config': 'chic_s'},
    'nla_s': {'method': 'nla', 'bam': 'nla', 'mp': False},
    'nla_m': {'method': 'nla', 'bam': 'nla', 'mp': True, 'ref_config': 'nla_s'},
    # the nla records spread over small contig, small contig, large contig, small contig: the job list of
    # --one_contig_per_process groups small contigs into one job with several tasks.  "Every record" for a
    # --multiprocess run = the records the serial run writes for the same options (ref_config)
    'nlamc_s': {'method': 'nla', 'bam': 'nla_mc', 'mp': False, 'extra': ['--one_contig_per_process']},
    'nlamc_m': {'method': 'nla', 'bam': 'nla_mc', 'mp': True, 'extra': ['--one_contig_per_process'], 'ref_config': 'nlamc_s'},
    'nlamcskip_s': {'method': 'nla', 'bam': 'nla_mc', 'mp': False, 'extra': ['--one_contig_per_process', '-skip_contig', 'scaf2']},
    'nlamcskip_m': {'method': 'nla', 'bam': 'nla_mc', 'mp': True, 'extra': ['--one_contig_per_process', '-skip_contig', 'scaf2'],
                    'ref_config': 'nlamcskip_s'},
    # (-contig X is not used here: --multiprocess forces one contig per process and that branch ignores -contig,
    #  the run then writes ALL contigs - a superset of the serial output, not a loss of records)
    # the complete data/mini_nla_test.bam (566 records, 9 MB header: 2-4 s per run): thorough tier only
    'nlafull_s': {'method': 'nla', 'bam': 'nla_full', 'mp': False},
    'nlafull_m': {'method': 'nla', 'bam': 'nla_full', 'mp': True, 'ref_config': 'nlafull_s'},
    # --cluster (no -contig): jobs are submitted (submit_job is replaced by a recorder: nothing runs), exit()
    'nla_c': {'method': 'nla', 'bam': 'nla', 'mp': False, 'extra': ['--cluster'], 'noref': True, 'ref_for_pre': 'nla_s'},
}

L_SINGLE_LOOP = 'tag_multiome_single_thread/next(enumerate(molecule_iterator_exec))#0'
L_JOB_LOOP = 'tag_multiome_multi_processing/next(job_generator)#0'
LOOP_SINGLE = 'tag_multiome_single_thread: for (i, molecule) in enumerate(molecule_iterator_exec)'
LOOP_JOBS = 'tag_multiome_multi_processing: for (bam, meta) in job_generator'
LOOP_MERGE = 'merge_bams: for o in bams'
LOOP_TASKS = 'run_tagging_tasks: for task in arglist'
LOOP_TASK_MOL = 'run_tagging_task: for (i, molecule) in enumerate('      # prefix
LOOP_CLUSTER = 'run_multiome_tagging: for (ci, chrom) in enumerate('      # prefix
L_TASK_NEXT = 'run_tagging_task/next(enumerate('                          # prefix
L_TASK_WRITE = 'run_tagging_task/write_pysam#0'
L_TASK_TAGS = 'run_tagging_task/molecule.write_tags#0'
CH_CLUSTER = 'run_multiome_tagging: args.cluster'
CH_CLUSTER_CONTIG = 'run_multiome_tagging: args.contig is None'
CH_EXISTS = 'run_multiome_tagging: os.path.exists(remove_existing_path)'
CH_MP = 'run_multiome_tagging: args.multiprocess'
CH_METHOD = {'nla': "run_multiome_tagging: args.method == 'nla' or args.method == 'nla_no_overhang'",
             'chic': "run_multiome_tagging: args.method == 'chic'"}


def inv_py(world):
    """direct transcription of StatusLang.invb (used by search(), which must not need the model)"""
    st, ex, co, so, ix = world[:5]
    return st != 3 or (ex and co and so and ix)


def describe(world):
    st, ex, co, so, ix = world[:5]
    return 'status=%s exists=%d complete=%d sorted=%d indexed=%d' % (ST_NAMES[st], ex, co, so, ix)


class Prop(fw.PropBase):
    ID = 'C20'
    PROPS = 'Props/C20.v'
    TRUSTED = [
        'tools/c20.py translator (AST walk -> Gen/GenStatus.v): order of all calls, try/except structure, loops and '
        'branches of run_multiome_tagging, tag_multiome_single_thread, tag_multiome_multi_processing, sorted_bam_file, '
        'sort_and_index, merge_bams and the with block of run_tagging_tasks; the EFFECT of a call on the abstract world is '
        'decided from the callee name and from whether it receives the output path (classify()); a call that does not '
        'receive the output path is assumed not to touch <out>.bam/.bai/.status.txt (it can still fail)',
        'modelled not verified: pysam.sort / pysam.merge produce a complete coordinate-sorted file from their inputs and '
        'pysam.index a usable index (the correspondence check reads the real files back: EOF block, record identity '
        'multiset, order, index fetch counts); a failing external call is modelled as raising either before any effect or '
        'after a partial effect (truncated output / truncated status file)',
        'exception classes: a failing step raises one of RuntimeError / ValueError / OSError / TimeoutError / MemoryError / '
        'another Exception / a non-Exception (KeyboardInterrupt, SystemExit); each except clause of the source is translated '
        'with the classes it names (fail closed outside this hierarchy) and the theorems quantify over the class; the '
        'correspondence check injects RuntimeError, ValueError, OSError(ENOSPC), OSError(EIO), IOError, MemoryError, '
        'KeyboardInterrupt and a custom Exception at the fault points',
        'partial: process death (kill -9, power loss, partial page writes) is not modelled - only Python exceptions at step '
        'boundaries (SIGKILL is sampled by K and compared with "no handler runs"); a non-Exception inside a pool worker makes '
        'multiprocessing.Pool hang (no status change) and is outside the model',
        'the input side (verify_and_fix_bam rebuilding a missing / outdated index of the input BAM) is one step without '
        'effect in the model; K covers it with run histories: input without index, input regenerated while the index of '
        'an earlier (shorter / longer, other contigs) version was left behind; "complete" is then judged against a '
        'fault-free run on the CURRENT input with a fresh index',
        'worker side: one result of the pool = the worker program run on a world of its own (fresh temp BAM named by uuid4, '
        'role-checked); the pool re-raises a worker exception with its class in the parent (modelled: multiprocessing.Pool); '
        'the data the worker branches on (molecule counter of a task, accumulator, `total_molecules > 0`, `bam is not None`, the '
        'merge list) is identified by role checks in the translator (fail closed) and tracked as booleans; "reported" = the task '
        'is appended to timeout_tasks in the TimeoutError handler; that the parent blacklists reported tasks in the output '
        'header is role-checked and read back from the real header by K, not modelled; jobs run one after the other in '
        'the model (real completion order is arbitrary; the join of a worker result into the parent is order independent)',
        '--cluster: the branch is translated up to exit(); the submitted jobs (per-contig taggers with their own status files, '
        'the merge job whose last command writes "All done") run outside the process and are not modelled (role check: no '
        'command or status in that branch contains the success message); K replaces submit_job by a recorder',
        'not translated: the option -head (truncates on purpose); molecules the worker skips on purpose (`continue`: no cut '
        'site / outside the task region) are C05/C08 matter: "every record" for a --multiprocess run = what the serial run writes',
    ]
    ASSUMPTIONS = [
        '-head not given (drops records on purpose)',
        'C20_never_ok_early / C20_ok_at_end / C20_worker_path_complete (full strength: every record): no step raises '
        'TimeoutError - run_tagging_tasks swallows it on purpose (-max_time_per_segment: the task is put in timeout_tasks and '
        'blacklisted in the header); with TimeoutError admitted the statement is refuted (C20_every_record_refuted) and the '
        '..._timeouts theorems state what remains: nothing is dropped without a report',
        'aux_clear w0: ghost / data fields of the initial world in their initial state (a restriction of the model, not of the code)',
        'C20_fail_not_ok: the run does not start from a stale success marker and no blacklist temp files are cleaned '
        'up after the pipeline (the clean-up loop runs after the success marker was written)',
    ]

    # ---------------------------------------------------------------- T
    def regen(self):
        self.gen = None
        try:
            g = generate(fw.REPO)
            text = g.coq()
        except BaseException:
            if os.path.exists(GEN_PATH):
                os.remove(GEN_PATH)     # fail closed: a refused source leaves no stale Gen file behind
            raise
        # unchanged content is left alone and changed content is replaced atomically: another check of
        # this property (other tree / other seed) may be reading the file at the same time
        old = open(GEN_PATH).read() if os.path.exists(GEN_PATH) else None
        if old != text:
            tmp = GEN_PATH + '.tmp%d' % os.getpid()
            with open(tmp, 'w') as f:
                f.write(text)
            os.replace(tmp, GEN_PATH)
        self.gen = g
        meta = list(g.meta)
        meta.append({'file': 'coq/Gen/GenStatus.v', 'labels': len(g.labels), 'loops': len(g.loops),
                     'choices': len(g.choices), 'notes': g.notes,
                     'ok_write_after_with': self.ok_position(g)})
        return meta

    def ok_position(self, g):
        """where the success marker is written, in words (evidence only)"""
        d = dict(g.defs)
        t = d.get('tag_multiome_single_thread_body', '')
        i, j = t.find('EStatus SOk'), t.find('sorted_bam_file_post')
        return {'single_thread': 'after sorted_bam_file exit code' if i > j >= 0 else 'BEFORE sorted_bam_file exit code (inside the with block)'}

    # ---------------------------------------------------------------- cases
    def cases(self):
        quick = self.tier == 'quick'
        out = []

        rot = itertools.count()

        def add(cfg, faults, pre='fresh', input=None):
            # vary the class of the injected exception over the cases (round robin)
            mp = CONFIGS[cfg]['mp']
            fs = []
            for f in faults:
                f = dict(f)
                if 'exc' not in f and f.get('kind', 'exc') in ('exc', 'partial'):
                    pool = EXC_WORKER if worker_side(f, mp) else EXC_MAIN
                    e = pool[next(rot) % len(pool)]
                    if e:
                        f['exc'] = e
                fs.append(f)
            c = {'config': cfg, 'faults': fs, 'pre': pre}
            if input:
                c['input'] = input
            out.append(c)

        def sweep(cfg, fault):
            # one fault point, every exception class
            mp = CONFIGS[cfg]['mp']
            for e in (EXC_WORKER if worker_side(fault, mp) else EXC_MAIN):
                add(cfg, [dict(fault, exc=e or 'Injected')])

        F = lambda point, **kw: dict(point=point, **kw)
        for cfg in ('chic_s', 'nla_s'):
            n = self.n_mol[cfg]
            ks = sorted(set([0, 1, n // 2, n - 2, n - 1])) if (quick and n > 64) else range(n)
            ks = [k for k in ks if 0 <= k < n]
            add(cfg, [])
            add(cfg, [F('write_status', after=0)])
            add(cfg, [F('write_status', after=0, kind='partial')])
            add(cfg, [F('verify')])
            add(cfg, [F('verify', kind='base')])
            for k in ks:
                add(cfg, [F('mol_next', after=k)])
                add(cfg, [F('write_tags', after=k)])
                add(cfg, [F('write_pysam', after=k)])
            add(cfg, [F('write_pysam', after=ks[-1], kind='partial')])
            add(cfg, [F('write_pysam', after=ks[0], kind='base')])
            add(cfg, [F('mol_next', after=ks[len(ks) // 2], kind='base')])
            add(cfg, [F('mol_end', total=n)])
            add(cfg, [F('rg_header')])
            add(cfg, [F('rg_header', kind='base')])
            for j in (1, 2, 3):
                add(cfg, [F('sort', first=j)])
                add(cfg, [F('sort', first=j, kind='partial')])
            add(cfg, [F('sort', first=3, kind='base')])
            add(cfg, [F('index_out')])
            add(cfg, [F('index_out', kind='base')])
            add(cfg, [F('remove_unsorted')])
            add(cfg, [F('write_status', after=1)])
            add(cfg, [F('write_status', after=1, kind='partial')])
            add(cfg, [F('sort', first=2), F('index_out')])
            add(cfg, [F('sort', first=1, kind='partial'), F('write_status', after=1)])
            # over the output of an earlier successful run
            add(cfg, [], pre='prev_ok')
            add(cfg, [F('write_status', after=0)], pre='prev_ok')
            add(cfg, [F('verify')], pre='prev_ok')
            add(cfg, [F('remove_out')], pre='prev_ok')
            add(cfg, [F('remove_out_bai')], pre='prev_ok')
            add(cfg, [F('write_pysam', after=ks[0])], pre='prev_ok')
            add(cfg, [F('sort', first=3)], pre='prev_ok')
            add(cfg, [F('sort', first=3, kind='partial')], pre='prev_ok')
            add(cfg, [F('index_out')], pre='prev_ok')
        for cfg in ('chic_m', 'nla_m'):
            m = self.n_jobs[cfg]
            add(cfg, [])
            add(cfg, [F('write_status', after=0)])
            add(cfg, [F('verify')])
            add(cfg, [F('pool')])
            for k in range(m):
                add(cfg, [F('worker', after=k)])
            n = self.n_mol[cfg]
            wk = sorted(set([0, 1, n // 2])) if quick else range(0, n, max(1, n // 12))
            wk = [k for k in wk if k < n]
            for k in wk:
                add(cfg, [F('write_pysam', after=k, where='worker')])
                add(cfg, [F('mol_next', after=k, where='worker')])
            add(cfg, [F('write_tags', after=0, where='worker')])
            add(cfg, [F('sort_worker', first=3)])
            add(cfg, [F('sort_worker', first=2)])
            add(cfg, [F('sort_worker', first=3, kind='partial')])
            add(cfg, [F('sort_worker', first=1, kind='partial')])
            add(cfg, [F('rg_header_worker')])
            add(cfg, [F('index_header')])
            add(cfg, [F('merge_bams')])
            add(cfg, [F('pysam_merge')])
            add(cfg, [F('pysam_merge', kind='partial')])
            add(cfg, [F('pysam_merge', kind='base')])
            add(cfg, [F('index_out')])
            add(cfg, [F('remove_merged_input', after=0)])
            add(cfg, [F('rmtree')])
            add(cfg, [F('rmtree', kind='base')])
            add(cfg, [F('write_status', after=1)])
            add(cfg, [F('write_status', after=1, kind='partial')])
            add(cfg, [F('rmtree'), F('write_status', after=1)])
            add(cfg, [], pre='prev_ok')
            add(cfg, [F('worker', after=0)], pre='prev_ok')
            add(cfg, [F('remove_out_bai')], pre='prev_ok')
            add(cfg, [F('pysam_merge', kind='partial')], pre='prev_ok')
            add(cfg, [F('index_out')], pre='prev_ok')
            add(cfg, [F('write_status', after=1)], pre='prev_ok')
        # every exception class at representative fault points of each pipeline
        for cfg in ('chic_s', 'nla_s'):
            n = self.n_mol[cfg]
            for fl in (F('verify'), F('mol_next', after=n // 2), F('write_tags', after=n // 2), F('write_pysam', after=n // 2),
                       F('write_pysam', after=n - 1, kind='partial'), F('mol_end', total=n), F('rg_header'),
                       F('sort', first=3), F('sort', first=1), F('sort', first=3, kind='partial'), F('index_out'),
                       F('remove_unsorted'), F('write_status', after=1)):
                sweep(cfg, fl)
        for cfg in ('chic_m', 'nla_m'):
            n = self.n_mol[cfg]
            for fl in (F('pool'), F('worker', after=0), F('write_pysam', after=0, where='worker'),
                       F('write_pysam', after=n // 2, where='worker'), F('mol_next', after=n // 2, where='worker'),
                       F('write_tags', after=0, where='worker'), F('sort_worker', first=3), F('rg_header_worker'),
                       F('index_header'), F('pysam_merge'), F('pysam_merge', kind='partial'), F('index_out'),
                       F('remove_merged_input', after=0), F('rmtree'), F('write_status', after=1)):
                sweep(cfg, fl)
        # several small contigs + a large one, with -skip_contig / -contig: job construction and clean-up of
        # "empty" jobs must not lose records (compared with the serial run for the same options)
        for cfg in ('nlamc_s', 'nlamcskip_s'):
            n = self.n_mol[cfg]
            add(cfg, [])
            add(cfg, [], pre='prev_ok')
            add(cfg, [F('write_pysam', after=n // 2)])
            add(cfg, [F('sort', first=3, kind='partial')])
            add(cfg, [F('index_out')])
        for cfg in ('nlamc_m', 'nlamcskip_m'):
            add(cfg, [])
            add(cfg, [], pre='prev_ok')
            for k in range(self.n_jobs[cfg]):
                add(cfg, [F('worker', after=k)])
            add(cfg, [F('write_pysam', after=0, where='worker')])
            add(cfg, [F('sort_worker', first=3, kind='partial')])
            add(cfg, [F('sort_worker', first=2, kind='partial')])
            add(cfg, [F('pysam_merge', kind='partial')])
            add(cfg, [F('index_out')])
            add(cfg, [F('rmtree')])
        # ---- worker side, addressed by (job, task, molecules already written by the task): every job and task of
        # the multiprocess configurations; TimeoutError (swallowed by the worker: -max_time_per_segment path) and
        # the other classes (the run must fail)
        def at(cfg, j, t, i, point, **kw):
            return dict(point=point, where='worker', jobkey=self.jobs[cfg][j]['key'], task=t, at=i, **kw)
        for cfg in ('chic_m', 'nla_m', 'nlamc_m', 'nlamcskip_m'):
            if quick and cfg == 'nlamcskip_m':
                continue
            for j, job in enumerate(self.jobs.get(cfg, [])):
                for t, task in enumerate(job['tasks']):
                    w = task['written']
                    if w == 0:
                        continue
                    idx = sorted(set([0, w - 1])) if quick else (sorted(set([0, w // 2, w - 1])) if w > 12 else range(w))
                    for i in idx:
                        add(cfg, [at(cfg, j, t, i, 'write_pysam', exc='TimeoutError')])
                        add(cfg, [at(cfg, j, t, i, 'mol_next', exc='TimeoutError')])
                    add(cfg, [at(cfg, j, t, w - 1, 'write_pysam', exc='TimeoutError', kind='partial')])
                    add(cfg, [at(cfg, j, t, w // 2, 'write_tags', exc='TimeoutError')])
                    add(cfg, [at(cfg, j, t, w // 2, 'write_pysam')])
                    if not quick:
                        add(cfg, [at(cfg, j, t, 0, 'mol_next')])
                        add(cfg, [at(cfg, j, t, w - 1, 'write_pysam', kind='partial')])
                # every task of the job times out / the first and the last do
                wt = [(t, task['written']) for t, task in enumerate(job['tasks']) if task['written']]
                if len(wt) > 1:
                    add(cfg, [at(cfg, j, t, w // 2, 'write_pysam', exc='TimeoutError') for t, w in wt])
                    add(cfg, [at(cfg, j, wt[0][0], 0, 'mol_next', exc='TimeoutError'),
                              at(cfg, j, wt[-1][0], wt[-1][1] - 1, 'write_pysam', exc='TimeoutError')])
            if self.jobs.get(cfg):
                # a timeout in one job and a failure elsewhere: the run must fail
                js = [(j, t) for j, job in enumerate(self.jobs[cfg]) for t, task in enumerate(job['tasks']) if task['written']]
                if js:
                    j, t = js[0]
                    add(cfg, [at(cfg, j, t, 0, 'write_pysam', exc='TimeoutError'), F('pysam_merge')])
                    add(cfg, [at(cfg, j, t, 0, 'write_pysam', exc='TimeoutError'), F('index_out')])
                    add(cfg, [at(cfg, j, t, 0, 'write_pysam', exc='TimeoutError'), F('write_status', after=1)])
                    add(cfg, [at(cfg, j, t, 0, 'write_pysam', exc='TimeoutError')], pre='prev_ok')
            for fl in (F('w_open'), F('index_worker'), F('w_remove_bam'), F('w_remove_bai'), F('w_prefetch'),
                       F('sort_worker', first=3, exc='TimeoutError'), F('index_worker', exc='TimeoutError'),
                       F('rg_header_worker', exc='TimeoutError'), F('w_open', exc='TimeoutError')):
                add(cfg, [fl])
            # TimeoutError outside the workers is an ordinary failure
            for fl in (F('pysam_merge', exc='TimeoutError'), F('index_out', exc='TimeoutError'), F('index_header', exc='TimeoutError'),
                       F('rmtree', exc='TimeoutError'), F('pool', exc='TimeoutError')):
                add(cfg, [fl])
        for cfg in ('chic_m', 'nla_m'):
            for fl in (F('w_open'), F('index_worker')) + (() if quick else (F('w_remove_bam'), F('w_prefetch'))):
                sweep(cfg, fl)
        for cfg in ('chic_s', 'nla_s'):
            n = self.n_mol[cfg]
            for fl in (F('write_pysam', after=n // 2, exc='TimeoutError'), F('mol_next', after=0, exc='TimeoutError'),
                       F('sort', first=3, exc='TimeoutError'), F('sort', first=1, exc='TimeoutError'), F('index_out', exc='TimeoutError')):
                add(cfg, [fl])
        # ---- --cluster
        if 'nla_c' in self.configs():
            nsub = self.n_submit
            add('nla_c', [])
            add('nla_c', [], pre='prev_ok')
            for fl in (F('write_status', after=0), F('write_status', after=0, kind='partial'), F('write_status', after=1),
                       F('write_status', after=1, kind='partial'), F('write_status', after=2), F('verify'),
                       F('submit_job', after=0), F('submit_job', after=max(0, nsub - 1)), F('submit_job', after=0, kind='base')):
                add('nla_c', [fl])
                add('nla_c', [fl], pre='prev_ok')
            for fl in (F('write_status', after=1), F('submit_job', after=0), F('submit_job', after=max(0, nsub - 1))):
                sweep('nla_c', fl)
        # histories of the INPUT file: verify_and_fix_bam must (re)build a missing or outdated index, or
        # reads are silently not fetched and the "complete" output lacks records of the current input
        for cfg in ('nla_s', 'nla_m', 'chic_s', 'chic_m'):
            for hist in ('stale_index_shorter', 'stale_index_longer', 'missing_index'):
                add(cfg, [], input=hist)
                add(cfg, [], pre='prev_ok', input=hist)
                add(cfg, [F('index_out')], input=hist)
        if not quick:
            # SIGKILL samples (process death is not modelled; compared with "no handler runs")
            for cfg in ('chic_s', 'nla_s'):
                n = self.n_mol[cfg]
                add(cfg, [F('write_pysam', after=n // 2, kind='kill')])
                add(cfg, [F('sort', first=1, kind='kill')])
                add(cfg, [F('index_out', kind='kill')])
                add(cfg, [F('index_out', kind='kill')], pre='prev_ok')
            for cfg in ('chic_m', 'nla_m'):
                add(cfg, [F('pysam_merge', kind='kill')])
                add(cfg, [F('index_out', kind='kill')])
                add(cfg, [F('rmtree', kind='kill')])
            # the complete test library
            n = self.n_mol['nlafull_s']
            for fl in ([], [F('mol_next', after=n // 2)], [F('write_pysam', after=n - 1)], [F('mol_end', total=n)],
                       [F('rg_header')], [F('sort', first=2)], [F('sort', first=3)], [F('sort', first=3, kind='partial')],
                       [F('index_out')], [F('write_status', after=1)]):
                add('nlafull_s', fl)
            m = self.n_jobs['nlafull_m']
            for fl in ([], [F('worker', after=m - 1)], [F('write_pysam', after=n // 2, where='worker')], [F('sort_worker', first=3)],
                       [F('pysam_merge', kind='partial')], [F('index_out')], [F('rmtree')], [F('write_status', after=1)]):
                add('nlafull_m', fl)
            add('nlafull_m', [F('index_out')], pre='prev_ok')
        return out

    # ---------------------------------------------------------------- fault -> model step
    def job_index(self, cfg, key):
        for j, job in enumerate(self.jobs.get(cfg, [])):
            if job['key'] == key:
                return j
        return None

    def task_entry(self, cfg, j, t):
        """ordinal of task t of job j among all tasks (jobs run one after the other, in canonical order, in the model)"""
        e = 0
        for jj, job in enumerate(self.jobs[cfg]):
            for tt, task in enumerate(job['tasks']):
                if (jj, tt) == (j, t):
                    return e
                e += 1
        raise fw.Broken('correspondence', 'no task %d of job %d in %s' % (t, j, cfg))

    def worker_step(self, cfg, pt, j, t, i, kind, single_job=False):
        """model step of a fault inside task t of job j after the task wrote i molecules: the i-th execution of the
        step after the e-th reset of the task's molecule counter (once per task, before its molecule loop)"""
        g = self.gen
        e = t if single_job else self.task_entry(cfg, j, t)
        anchor = [l for l in g.labels if l.startswith('run_tagging_task/') and l.endswith('=0#0')]
        name = [l for l in g.labels if l.startswith(L_TASK_NEXT)]
        if len(name) != 1 or len(anchor) != 1:
            raise fw.Broken('correspondence', 'molecule loop / counter of run_tagging_task not found in the generated pipeline')
        lbl = name[0] if pt == 'mol_next' else (L_TASK_WRITE if pt == 'write_pysam' else L_TASK_TAGS)
        return (lbl, i, kind, (anchor[0], e))

    def label_plan(self, case, res=None):
        """list of (label name, occurrence, kind code) in the order the faults happen in the run"""
        cfg = case['config']
        mp = CONFIGS[cfg]['mp']
        plan = []
        fired = list((res or {}).get('wfired') or [])
        for f in case['faults']:
            pt, kind = f['point'], fault_code(f)
            if 'jobkey' in f:
                j = self.job_index(cfg, f['jobkey'])
                if j is None:
                    raise fw.Broken('correspondence', 'job %r not found in the reference run of %s' % (f['jobkey'], cfg))
                plan.append(self.worker_step(cfg, pt, j, f['task'], f['at'], kind))
            elif mp and worker_side(f, mp):
                if pt == 'sort_worker':
                    # each worker process fails its first `first` sorts; the third failure ends the job
                    for a in range(f.get('first', 3)):
                        plan.append(('sort_and_index/pysam.sort#%d' % a, 0, kind))
                elif pt == 'rg_header_worker':
                    plan.append(('sorted_bam_file/add_readgroups_to_header#0', 0, kind))
                elif pt == 'w_open':
                    plan.append(('run_tagging_tasks/AlignmentFile#0', 0, kind))
                elif pt == 'index_worker':
                    plan.append(('sort_and_index/pysam.index#0', 0, kind))
                elif pt == 'w_prefetch':
                    plan.append(('run_tagging_task/prefetch#0', 0, kind))
                elif pt in ('w_remove_bam', 'w_remove_bai'):
                    # only a job that wrote nothing removes its temp BAM
                    if any(r['point'] == pt for r in fired) or res is None:
                        plan.append(('run_tagging_tasks/remove#%d' % (0 if pt == 'w_remove_bam' else 1), 0, kind))
                elif pt in ('write_pysam', 'write_tags', 'mol_next') and self.jobs.get(cfg):
                    # addressed by a global call index: the implementation reports in which task it fired
                    hit = [r for r in fired if r['point'] == pt]
                    if hit:
                        j = self.job_index(cfg, hit[0].get('key'))
                        if j is not None and hit[0].get('task', -1) >= 0:
                            plan.append(self.worker_step(cfg, pt, j, hit[0]['task'], hit[0]['at'], kind))
                        else:
                            plan.append((L_JOB_LOOP, 0, 100 + kind % 100))
                else:
                    # the pool machinery itself / no per-task information: the exception travels through the pool
                    # with its class and is raised by next(job_generator)
                    plan.append((L_JOB_LOOP, 0, 100 + kind % 100))
            elif res is not None and 'fired' in res and pt not in res['fired'] and f.get('kind') != 'kill':
                # the run never reached this fault point (e.g. nothing to merge after every task timed out): the
                # model must give the observed outcome without it
                continue
            elif pt == 'write_status':
                if f['after'] == 0:
                    plan.append(('run_multiome_tagging/write_status#0', 0, kind))
                elif CONFIGS[cfg].get('noref'):
                    # --cluster: #1 'Submitting jobs...' on the output, then one 'SUBMITTED' per contig on its temp path
                    plan.append(('run_multiome_tagging/write_status#1', 0, kind) if f['after'] == 1 else
                                ('run_multiome_tagging/write_status#2', f['after'] - 2, kind))
                else:
                    plan.append((self.ok_label(mp), 0, kind))
            elif pt == 'submit_job':
                n = self.n_submit
                plan.append(('run_multiome_tagging/submit_job#0', f['after'], kind) if f['after'] < n - 1 else
                            ('run_multiome_tagging/submit_job#1', 0, kind))
            elif pt == 'verify':
                plan.append(('run_multiome_tagging/verify_and_fix_bam#0', 0, kind))
            elif pt == 'remove_out':
                plan.append(('run_multiome_tagging/os.remove#0', 0, kind))
            elif pt == 'remove_out_bai':
                plan.append(('run_multiome_tagging/os.remove#1', 0, kind))
            elif pt == 'mol_next':
                plan.append((L_SINGLE_LOOP, f['after'], kind))
            elif pt == 'mol_end':
                plan.append((L_SINGLE_LOOP, f['total'], kind))
            elif pt == 'write_tags':
                plan.append(('tag_multiome_single_thread/molecule.write_tags#0', f['after'], kind))
            elif pt == 'write_pysam':
                plan.append(('tag_multiome_single_thread/write_pysam#0', f['after'], kind))
            elif pt == 'rg_header':
                plan.append(('sorted_bam_file/add_readgroups_to_header#0', 0, kind))
            elif pt == 'sort':
                # a non-Exception is not caught by the retry loop: the first attempt ends the run
                for j in range(1 if kind % 100 == 6 else f['first']):
                    plan.append(('sort_and_index/pysam.sort#%d' % j, 0, kind))
            elif pt == 'index_out':
                plan.append(('merge_bams/pysam.index#0' if mp else 'sort_and_index/pysam.index#0', 0, kind))
            elif pt == 'remove_unsorted':
                plan.append(('sort_and_index/os.remove#0', 0, kind))
            elif pt == 'pool':
                plan.append(('tag_multiome_multi_processing/Pool#0', 0, kind))
            elif pt == 'index_header':
                plan.append(('tag_multiome_multi_processing/pysam.index#0', 0, kind))
            elif pt in ('merge_bams', 'pysam_merge'):
                plan.append(('merge_bams/pysam.merge#0', 0, kind))
            elif pt == 'remove_merged_input':
                plan.append(('merge_bams/os.remove#0', f.get('after', 0), kind))
            elif pt == 'rmtree':
                plan.append(('tag_multiome_multi_processing/shutil.rmtree#0', 0, kind))
            else:
                raise fw.Broken('correspondence', 'no model step for fault point %r' % pt)
        # the model executes the jobs one after the other: order the worker-side faults as it meets them
        return plan

    def ok_label(self, mp):
        fn = 'tag_multiome_multi_processing' if mp else 'tag_multiome_single_thread'
        # the label of the step that writes the success marker in that function
        import re
        body = dict(self.gen.defs)['%s_body' % fn]
        ids = [int(x) for x in re.findall(r'Step (\d+) \(EStatus SOk\)', body)]
        if len(ids) != 1:
            raise fw.Broken('correspondence', '%s writes the success marker %d times' % (fn, len(ids)))
        return self.gen.labels[ids[0]]

    def loop_overrides(self, cfg, only_job=None):
        """iterations per ENTRY of the worker's loops: tasks of job j, molecules written by task t of job j"""
        g = self.gen
        jobs = self.jobs.get(cfg) or []
        if not jobs or LOOP_TASKS not in g.loops:
            return []
        mol = [i for i, n in enumerate(g.loops) if n.startswith(LOOP_TASK_MOL)]
        if len(mol) != 1:
            raise fw.Broken('correspondence', 'molecule loop of run_tagging_task not found in the generated pipeline')
        it, im = g.loops.index(LOOP_TASKS), mol[0]
        over, e = [], 0
        for j, job in enumerate(jobs if only_job is None else [jobs[only_job]]):
            over.append([it, j, len(job['tasks'])])
            for task in job['tasks']:
                over.append([im, e, task['written']])
                e += 1
        return over

    def model_input(self, case, faults_idx):
        g = self.gen
        cfg = case['config']
        mp = CONFIGS[cfg]['mp']
        cluster = bool(CONFIGS[cfg].get('noref'))
        cnts = []
        for name in g.loops:
            if name == LOOP_SINGLE:
                cnts.append(self.n_mol.get(cfg, 1))
            elif name == LOOP_JOBS:
                cnts.append(self.n_jobs.get(cfg, 1))
            elif name == LOOP_MERGE:
                cnts.append(self.n_jobs.get(cfg, 1) + 1)
            elif name.startswith(LOOP_CLUSTER):
                cnts.append(max(0, self.n_submit - 1))
            else:
                cnts.append(1)
        chs = []
        for name in g.choices:
            v = name in STD_TRUE
            if name == CH_MP:
                v = mp
            if name == CH_EXISTS:
                v = case.get('pre') == 'prev_ok'
            if name in (CH_CLUSTER, CH_CLUSTER_CONTIG):
                v = cluster
            if name == 'merge_bams: len(bams) == 1' and case.get('_paths') == 0:
                v = True        # no worker returned a temp BAM: only the header BAM is "merged" (moved)
            if name == 'tag_multiome_multi_processing: one_contig_per_process':
                v = '--one_contig_per_process' in CONFIGS[cfg].get('extra', [])
            if name == "tag_multiome_multi_processing: molecule_iterator_args.get('contig', None) is not None":
                v = '-contig' in CONFIGS[cfg].get('extra', [])
            if name in CH_METHOD.values():
                v = name == CH_METHOD[CONFIGS[cfg]['method']]
            chs.append(1 if v else 0)
        w0 = [3, 1, 1, 1, 1] if case.get('pre') == 'prev_ok' else [0, 0, 0, 0, 0]
        return [w0, cnts, chs, [[k, kind] for k, kind in faults_idx], self.loop_overrides(cfg) if mp else []]

    def resolve(self, cases, plans, make_input, mode):
        """run the model; fault (label, occurrence[, anchor]) entries are resolved to dynamic step indices with the
        model's own trace, one fault at a time"""
        g = self.gen
        resolved = [[] for _ in cases]
        depth = max([len(p) for p in plans] + [0])
        outs = inputs = None
        for rnd in range(depth + 1):
            inputs = [make_input(c, resolved[i]) for i, c in enumerate(cases)]
            outs = fw.run_model('C20', mode, inputs) if inputs else []
            if rnd == depth:
                break
            for i, plan in enumerate(plans):
                if rnd < len(plan):
                    lname, occ, kind = plan[rnd][:3]
                    anchor = plan[rnd][3] if len(plan[rnd]) > 3 else None
                    if lname not in g.labels:
                        raise fw.Broken('correspondence', 'step %r not found in the generated pipeline' % lname)
                    lid = g.labels.index(lname)
                    trace = outs[i][2]
                    start = -1
                    if anchor is not None:
                        if anchor[0] not in g.labels:
                            raise fw.Broken('correspondence', 'step %r not found in the generated pipeline' % anchor[0])
                        aid = g.labels.index(anchor[0])
                        apos = [k for k, l in enumerate(trace) if l == aid]
                        if anchor[1] >= len(apos):
                            raise fw.Broken('correspondence', 'model trace of %r does not reach task %d' % (cases[i], anchor[1]))
                        start = apos[anchor[1]]
                        nxt = apos[anchor[1] + 1] if anchor[1] + 1 < len(apos) else len(trace)
                    pos = [k for k, l in enumerate(trace) if l == lid and k > start and (anchor is None or k < nxt)]
                    if occ >= len(pos):
                        raise fw.Broken('correspondence', 'model trace of %r does not reach occurrence %d of %s'
                                        % (cases[i], occ, lname))
                    resolved[i].append((pos[occ], kind))
        return inputs, outs, resolved

    def predict(self, cases, results=None):
        g = self.gen
        for name in (LOOP_SINGLE, LOOP_JOBS, CH_MP, CH_EXISTS, CH_CLUSTER, LOOP_TASKS) + tuple(CH_METHOD.values()):
            if name not in g.loops and name not in g.choices:
                raise fw.Broken('correspondence', 'loop / run-time test not found in the generated pipeline: %s' % name)
        plans = [self.label_plan(c, results[i] if results else None) for i, c in enumerate(cases)]
        if results:
            # run-time facts the model takes as inputs (branch outcomes): how many workers returned a temp BAM
            cases = [dict(c, _paths=sum(1 for j in (r.get('wjobs') or []) if j.get('ret') == 'path'))
                     if CONFIGS[c['config']]['mp'] and r.get('wjobs') else c for c, r in zip(cases, results)]
        inputs, outs, resolved = self.resolve(cases, plans, self.model_input, 0)
        self.model_pairs = list(zip(inputs, outs))
        return [{'raised': o[0], 'world': o[1][:5], 'lost': o[1][5], 'rep': o[1][6], 'steps': len(o[2]),
                 'fault_steps': resolved[i]} for i, o in enumerate(outs)]

    # ---------------------------------------------------------------- worker-only cases (mode 3: worker_full)
    def worker_cases(self):
        """one real run_tagging_tasks call per case, on the arguments a job had in the reference run"""
        quick = self.tier == 'quick'
        out = []
        rot = itertools.count()

        def add(cfg, j, faults):
            fs = []
            for f in faults:
                f = dict(f)
                if 'exc' not in f and f.get('kind', 'exc') in ('exc', 'partial'):
                    e = EXC_WORKER[next(rot) % len(EXC_WORKER)]
                    if e:
                        f['exc'] = e
                fs.append(f)
            out.append({'config': cfg, 'job': j, 'faults': fs})
        F = lambda point, **kw: dict(point=point, **kw)
        for cfg in ('chic_m', 'nlamc_m', 'nla_m', 'nlamcskip_m'):
            if quick and cfg in ('nla_m', 'nlamcskip_m'):
                continue
            for j, job in enumerate(self.jobs.get(cfg, [])):
                key = job['key']
                at = lambda t, i, point, **kw: dict(point=point, where='worker', jobkey=key, task=t, at=i, **kw)
                add(cfg, j, [])
                total = sum(task['written'] for task in job['tasks'])
                for fl in (F('w_open'), F('rg_header_worker'), F('index_worker'), F('w_prefetch'),
                           F('sort_worker', first=3), F('sort_worker', first=2),
                           F('w_remove_bam'), F('w_remove_bai'),
                           F('sort_worker', first=3, exc='TimeoutError'), F('index_worker', exc='TimeoutError'),
                           F('index_worker', kind='base'), F('w_open', kind='base')):
                    add(cfg, j, [fl])
                if total > 1:
                    # (the injected partial sort keeps the first half of the records: it needs at least two)
                    add(cfg, j, [F('sort_worker', first=1, kind='partial')])
                    add(cfg, j, [F('sort_worker', first=3, kind='partial')])
                wt = [(t, task['written']) for t, task in enumerate(job['tasks']) if task['written']]
                for t, w in wt:
                    idx = sorted(set([0, w // 2, w - 1])) if (quick or w > 12) else range(w)
                    for i in idx:
                        add(cfg, j, [at(t, i, 'write_pysam', exc='TimeoutError')])
                        add(cfg, j, [at(t, i, 'mol_next', exc='TimeoutError')])
                        add(cfg, j, [at(t, i, 'write_pysam')])
                    add(cfg, j, [at(t, w - 1, 'write_pysam', exc='TimeoutError', kind='partial')])
                    add(cfg, j, [at(t, w // 2, 'write_tags', exc='TimeoutError')])
                    add(cfg, j, [at(t, 0, 'mol_next')])
                    add(cfg, j, [at(t, w // 2, 'write_tags')])
                    add(cfg, j, [at(t, w // 2, 'write_pysam', kind='base')])
                    add(cfg, j, [at(t, 0, 'write_pysam', exc='TimeoutError'), F('sort_worker', first=3)])
                    add(cfg, j, [at(t, 0, 'write_pysam', exc='TimeoutError'), F('index_worker')])
                    add(cfg, j, [at(t, 0, 'write_pysam', exc='TimeoutError'), F('w_remove_bam')])
                if len(wt) > 1:
                    add(cfg, j, [at(t, w // 2, 'write_pysam', exc='TimeoutError') for t, w in wt])
                    add(cfg, j, [at(t, 0, 'mol_next', exc='TimeoutError') for t, w in wt])
                    add(cfg, j, [at(wt[0][0], 0, 'mol_next', exc='TimeoutError'), at(wt[-1][0], 0, 'write_pysam')])
        return out

    def worker_plan(self, wc, res):
        cfg, j = wc['config'], wc['job']
        plan = []
        for f in wc['faults']:
            pt, kind = f['point'], fault_code(f)
            if 'jobkey' in f:
                plan.append(self.worker_step(cfg, pt, j, f['task'], f['at'], kind, single_job=True))
            elif pt == 'sort_worker':
                for a in range(1 if kind % 100 == 6 else f.get('first', 3)):
                    plan.append(('sort_and_index/pysam.sort#%d' % a, 0, kind))
            elif pt == 'rg_header_worker':
                plan.append(('sorted_bam_file/add_readgroups_to_header#0', 0, kind))
            elif pt == 'w_open':
                plan.append(('run_tagging_tasks/AlignmentFile#0', 0, kind))
            elif pt == 'index_worker':
                plan.append(('sort_and_index/pysam.index#0', 0, kind))
            elif pt == 'w_prefetch':
                plan.append(('run_tagging_task/prefetch#0', 0, kind))
            elif pt in ('w_remove_bam', 'w_remove_bai'):
                if any(r['point'] == pt for r in (res.get('wfired') or [])) or pt in (res.get('fired') or []):
                    plan.append(('run_tagging_tasks/remove#%d' % (0 if pt == 'w_remove_bam' else 1), 0, kind))
            else:
                raise fw.Broken('correspondence', 'no worker step for fault point %r' % pt)
        return plan

    def worker_input(self, wc, faults_idx):
        g = self.gen
        cfg = wc['config']
        cnts = [1 for _ in g.loops]
        chs = [1 if name in STD_TRUE else 0 for name in g.choices]
        return [[0, 0, 0, 0, 0], cnts, chs, [[k, kind] for k, kind in faults_idx], self.loop_overrides(cfg, only_job=wc['job'])]

    # ---------------------------------------------------------------- K
    def configs(self):
        if self.tier == 'quick':
            return {k: v for k, v in CONFIGS.items() if not k.startswith('nlafull')}
        return CONFIGS

    def run_impl_cases(self, cases, small_n, wcases=()):
        chunks = max(1, min(5, (len(cases) + len(wcases)) // 12))
        parts = [cases[i::chunks] for i in range(chunks)]
        wparts = [list(wcases)[i::chunks] for i in range(chunks)]

        def one(k):
            return fw.run_impl('impl_c20.py', {'configs': self.configs(), 'cases': parts[k], 'wcases': wparts[k],
                                               'small_n': small_n}, timeout=1500)
        with ThreadPoolExecutor(max_workers=chunks) as ex:
            rs = list(ex.map(one, range(chunks)))
        res = [None] * len(cases)
        wres = [None] * len(wcases)
        for ci, r in enumerate(rs):
            for j, o in enumerate(r['cases']):
                res[ci + j * chunks] = o
            for j, o in enumerate(r.get('wcases', [])):
                wres[ci + j * chunks] = o
        self.wres = wres
        return rs[0]['refs'], res

    def probe(self, small_n):
        """reference runs first: molecule / job / task counts parametrise the crash points"""
        probe = fw.run_impl('impl_c20.py', {'configs': self.configs(), 'small_n': small_n,
                                            'cases': [{'config': 'nla_c', 'faults': [], 'pre': 'fresh'}] if 'nla_c' in self.configs() else []})
        self.refs = probe['refs']
        self.n_mol = {k: v['molecules'] for k, v in self.refs.items()}
        self.n_jobs = {k: v['jobs'] for k, v in self.refs.items()}
        # per job (canonical order) the tasks and what each wrote; only used when the harness could observe the tasks
        self.jobs = {}
        for k, v in self.refs.items():
            jobs = v.get('wjobs') or []
            if jobs and all(j.get('tasks') for j in jobs) and len(jobs) == v['jobs'] \
                    and sum(t['written'] for j in jobs for t in j['tasks']) == v['molecules']:
                self.jobs[k] = jobs
        # --cluster: number of submit_job calls of a fault-free run (one per contig + the merge job)
        self.n_submit = 0
        self.cluster_probe = None
        if probe['cases']:
            self.cluster_probe = probe['cases'][0]
            self.n_submit = self.cluster_probe.get('submitted', 0) if 'world' in self.cluster_probe else 0

    def correspondence(self):
        small_n = 60 if self.tier == 'quick' else 160
        self.probe(small_n)
        bad = {k: v for k, v in self.refs.items() if v['raised'] or v['world'] != [3, 1, 1, 1, 1] or v.get('rep')}
        cases = self.cases()
        corpus = self.load_corpus()
        cases = corpus + cases
        wcases = self.worker_cases()
        refs, res = self.run_impl_cases(cases, small_n, wcases)
        wres = self.wres
        self.impl_cases, self.impl_res = cases, res
        self.impl_wcases = wcases
        fired = [bool(r.get('fired')) for r in res]
        self.cov['harness'] = 'every tagger run in its own forked child and process group, 60 s hard timeout per run'
        keyset = set(json.dumps(c, sort_keys=True) for c, fr in zip(cases, fired) if fr and c['faults'])
        keyset |= set(json.dumps(c, sort_keys=True) for c, r in zip(wcases, wres) if c['faults'] and r.get('fired'))
        hist = {}
        for c in cases:
            for f in c['faults'] or [{'point': 'none'}]:
                hist[f['point']] = hist.get(f['point'], 0) + 1
        whist = {}
        for c in wcases:
            for f in c['faults'] or [{'point': 'none'}]:
                k = f['point'] + (':TimeoutError' if f.get('exc') == 'TimeoutError' else '')
                whist[k] = whist.get(k, 0) + 1
        outcome_hist = {}
        for r in res:
            k = (describe(r['world']) + ' reported=%s raised=%s' % (r.get('rep'), r.get('raised'))) if 'world' in r else 'harness_error'
            outcome_hist[k] = outcome_hist.get(k, 0) + 1
        wout_hist = {}
        for r in wres:
            k = ('returns=%s %s reported=%s raised=%s' % (r.get('ret'), describe(r['world'])[12:], r.get('rep'), r.get('raised'))) \
                if 'world' in r else ('skipped' if 'skipped' in r else 'harness_error')
            wout_hist[k] = wout_hist.get(k, 0) + 1
        tmo = [i for i, c in enumerate(cases) if any(f.get('exc') == 'TimeoutError' and worker_side(f, CONFIGS[c['config']]['mp'])
                                                   and CONFIGS[c['config']]['mp'] for f in c['faults'])]
        self.cov.update({
            'evaluations': len(cases) + len(self.refs) + len(wcases),
            'distinct_nontrivial': len(keyset),
            'rule': 'one evaluation = one real run of run_multiome_tagging_cmd on a copy of a /repo/data BAM '
                    '(chic_test_region.bam: 17 records; first %d records of mini_nla_test.bam) with faults injected by '
                    'monkey-patching, then reading back status file, output BAM and its header, or (worker cases) one real '
                    'run_tagging_tasks call on the arguments a job had in a fault-free --multiprocess run, then reading back '
                    'its return value and temp BAM; non-trivial = an injected fault '
                    'actually fired; distinct by (configuration, previous output present, fault list)' % small_n,
            'configs': {k: {'molecules': self.n_mol[k], 'jobs': self.n_jobs[k], 'records': self.refs[k]['n_records'],
                            'tasks_written_per_job': [[t['written'] for t in j['tasks']] for j in self.jobs.get(k, [])]}
                        for k in self.refs},
            'fault_point_histogram': hist, 'outcome_histogram': outcome_hist,
            'worker_cases': len(wcases), 'worker_fault_point_histogram': whist, 'worker_outcome_histogram': wout_hist,
            'worker_timeout_cases_in_pipeline': len(tmo),
            'cluster_cases': sum(1 for c in cases if c['config'] == 'nla_c'), 'cluster_jobs_submitted': self.n_submit,
            'faults_fired': sum(fired) + sum(1 for r in wres if r.get('fired')),
            'cases_over_previous_output': sum(1 for c in cases if c.get('pre') == 'prev_ok'),
            'multi_fault_cases': sum(1 for c in cases if len(c['faults']) > 1) + sum(1 for c in wcases if len(c['faults']) > 1),
            'precondition_hit_rate': 1.0,
            'exhaustive': self.tier != 'quick',
            'exhaustive_note': 'thorough: every molecule index of both single-process configurations for mol_next / '
                               'write_tags / write_pysam; every job index for worker failures; every job and task for '
                               'worker-side faults, every molecule index of tasks with at most 12 molecules',
            'samples': [{'input': cases[i], 'impl': {k: res[i].get(k) for k in ('world', 'raised', 'error', 'rep')}}
                        for i in (1, len(cases) // 3, len(cases) - 2)] +
                       [{'input': wcases[i], 'impl': {k: wres[i].get(k) for k in ('ret', 'world', 'raised', 'rep', 'tasks')}}
                        for i in ([len(wcases) // 2] if wcases else [])],
        })
        missing = [k for k, v in self.configs().items() if v.get('mp') and k not in self.jobs]
        if missing:
            self.notes.append('per-task observation of the pool workers not available for %r: worker-side faults are '
                              'injected by global call index only, worker-only cases skipped' % missing)
        if bad:
            raise fw.Broken('correspondence', 'fault-free reference run does not end with status OK and a complete '
                            'sorted indexed output: %r' % {k: {a: v[a] for a in ('raised', 'error', 'world', 'rep')} for k, v in bad.items()})
        herr = [(c, r) for c, r in zip(cases, res) if 'harness_error' in r or 'skipped' in r or r.get('raised') == 98]
        herr += [(c, r) for c, r in zip(wcases, wres) if 'harness_error' in r]
        if herr:
            raise fw.Broken('correspondence', 'harness error (%d cases): %r' % (len(herr), herr[0]))
        # runs that did not end within the per-case timeout: no model outcome to compare with (the model has
        # no non-returning run); recorded, and the status file is still checked against the invariant
        hung = [i for i, r in enumerate(res) if r['raised'] == 99]
        self.cov['hung_cases'] = [{'input': cases[i], 'world': describe(res[i]['world'])} for i in hung[:10]]
        self.cov['hung_count'] = len(hung)
        if len(hung) > max(2, len(cases) // 50):
            raise fw.Broken('correspondence', '%d of %d runs did not end within the per-case timeout; first: %r'
                            % (len(hung), len(cases), cases[hung[0]]))
        # the statement evaluated on the implementation's outcomes (python transcription; the Coq decision
        # procedure is applied below when the model is available)
        viol = self.spec_violations()
        if viol:
            raise fw.Broken('correspondence', 'the specification is false on %d real outcomes; first: %s' % (len(viol), viol[0][1]))
        if not self.model_ok or self.gen is None:
            return
        pred = self.predict(cases, res)
        dis = []
        for c, r, m in zip(cases, res, pred):
            if r['raised'] == 99:
                continue
            rw, mw = list(r['world']), list(m['world'])
            if r.get('rep') and m['rep']:
                rw[2] = mw[2] = 0      # once a segment is reported the statement leaves "complete" free
            if rw != mw or r['raised'] != m['raised'] or (r.get('rep', 0) != m['rep'] and r['world'][1]):
                dis.append({'input': c, 'impl': {'world': describe(r['world']), 'reported': r.get('rep'), 'raised': r['raised'], 'error': r.get('error')},
                            'model': {'world': describe(m['world']), 'reported': m['rep'], 'raised': m['raised'], 'fault_steps': m['fault_steps']}})
        # worker-only cases against worker_full (mode 3)
        live = [(c, r) for c, r in zip(wcases, wres) if 'world' in r and r.get('raised') != 99]
        wplans = [self.worker_plan(c, r) for c, r in live]
        winputs, wouts, wresolved = self.resolve([c for c, _ in live], wplans, self.worker_input, 3)
        wdis = []
        for (c, r), o, fs in zip(live, wouts, wresolved):
            code = {'path': 30, 'none': 31}.get(r['ret'], r['raised'])
            rw, mw = list(r['world']), list(o[1][:5])
            if r['rep'] and o[1][6]:
                rw[2] = mw[2] = 0
            if o[0] != code or mw != rw or (o[1][6] != r['rep'] and code in (30, 31)):
                wdis.append({'input': c, 'impl': {'returns': r['ret'], 'world': describe(r['world']), 'reported': r['rep'],
                                                 'raised': r['raised'], 'error': r.get('error'), 'tasks': r.get('tasks')},
                             'model': {'outcome': o[0], 'world': describe(o[1][:5]), 'reported': o[1][6], 'fault_steps': fs}})
        self.cov['traces_validated_against_impl'] = len(cases) + len(live)
        self.cov['disagreements'] = len(dis) + len(wdis)
        # specification (mode 2) on the implementation's outcomes
        spec = fw.run_model('C20', 2, [[r['world'] + [r.get('rep', 0)], 1 if r['raised'] else 0] for r in res])
        self.cov['spec_on_impl'] = {'inv_true': sum(1 for s in spec if s[0]), 'inv_up_to_reported_true': sum(1 for s in spec if s[1]),
                                    'fail_not_ok_true': sum(1 for s in spec if s[2]), 'of': len(spec)}
        pairs = self.model_pairs + list(zip(winputs, wouts))
        idx = sorted(self.rng.sample(range(len(self.model_pairs)), min(70, len(self.model_pairs))))
        ok, nm, log = fw.vm_crosscheck('C20', 0, [self.model_pairs[i] for i in idx])
        widx = sorted(self.rng.sample(range(len(wouts)), min(30, len(wouts))))
        ok2, nm2, log2 = fw.vm_crosscheck('C20', 3, [(winputs[i], wouts[i]) for i in widx]) if widx else (True, 0, '')
        self.cov['vm_compute_crosscheck'] = {'cases': len(idx) + len(widx), 'mismatches': nm + nm2}
        if not (ok and ok2):
            raise fw.Broken('extraction', 'vm_compute and extracted model disagree: ' + (log if not ok else log2)[-800:])
        # strict invariant: not applicable when a worker swallowed a TimeoutError (by design); fail_not_ok has the
        # hypothesis st w0 <> Ok: not applicable over a previous successful output
        tset = set(tmo)
        viol = [i for i, s in enumerate(spec) if not s[1] or (not s[0] and i not in tset)
                or (not s[2] and cases[i].get('pre') != 'prev_ok')]
        if viol:
            raise fw.Broken('correspondence', 'the specification (invb / invb_rep / fail_not_ok) is false on %d real outcomes; first: %r -> %s'
                            % (len(viol), cases[viol[0]], describe(res[viol[0]]['world'])))
        self.cov['disagreement_examples'] = (dis + wdis)[:12]
        if dis or wdis:
            self.dis = dis + wdis
            self.save_corpus([d['input'] for d in dis[:5]])
            raise fw.Broken('correspondence', 'model and implementation disagree on %d of %d fault cases and %d of %d worker cases; first: %r'
                            % (len(dis), len(cases), len(wdis), len(live), (dis + wdis)[0]))

    def spec_violations(self):
        """the statement on the real outcomes -> [(kind, text, index, is_worker_case)]"""
        out = []
        for i, (c, r) in enumerate(zip(self.impl_cases, self.impl_res)):
            if 'world' not in r:
                continue
            bad = self.judge(c, r)
            if bad:
                out.append((bad[0], bad[1], i, False))
        for i, (c, r) in enumerate(zip(getattr(self, 'impl_wcases', []), getattr(self, 'wres', []) or [])):
            if 'world' not in r:
                continue
            bad = self.judge_worker(c, r)
            if bad:
                out.append((bad[0], bad[1], i, True))
        return out

    def judge(self, c, r):
        """python transcription of the theorems' conclusions for one real pipeline outcome"""
        w = r['world']
        mp = CONFIGS[c['config']]['mp']
        swallowed_timeout = mp and any(f.get('exc') == 'TimeoutError' and worker_side(f, mp) for f in c['faults'])
        seg = r.get('segments')
        if w[0] == 3 and not (w[1] and w[3] and w[4]):
            return ('ok_early', 'status file says "Reached end. All ok!" but the output is not there / sorted / indexed')
        if w[0] == 3 and not w[2]:
            if not swallowed_timeout:
                return ('ok_early', 'status file says "Reached end. All ok!" but the output does not hold every record')
            if not r.get('rep'):
                return ('unreported', 'status file says "Reached end. All ok!", records are missing and no region is blacklisted in the output header')
            if seg and seg['missing_not_reported']:
                return ('half_merged', 'status file says "Reached end. All ok!" and %d records are missing that do not belong to a '
                                       'task reported as timed out (e.g. %r)' % (seg['missing_not_reported'], seg['example']))
            if seg and not seg['reported_in_header']:
                return ('unreported', 'a task the worker reported as timed out is not blacklisted in the output header')
        if r['raised'] and r['raised'] != 99 and w[0] == 3 and c.get('pre') != 'prev_ok':
            return ('fail_ok', 'the run failed (%s) but the status file says "Reached end. All ok!"' % r.get('error'))
        if not r['raised'] and not c['faults'] and (w != [3, 1, 1, 1, 1] or r.get('rep')) and not CONFIGS[c['config']].get('noref'):
            return ('clean_run', 'a fault-free run does not end with status OK and a complete sorted indexed output')
        if CONFIGS[c['config']].get('noref') and (not r['raised'] or (w[0] == 3 and c.get('pre') != 'prev_ok') or r.get('submitted_ok_message')):
            return ('cluster', 'the --cluster run returned / left the success marker / submitted a job that writes it')
        return None

    def judge_worker(self, c, r):
        """... for one real run_tagging_tasks call"""
        w = r['world']
        tmo = any(f.get('exc') == 'TimeoutError' for f in c['faults'])
        if r.get('ret') == 'path':
            if not (w[1] and w[3] and w[4]):
                return ('worker_path', 'the worker returned a temp BAM that does not exist / is not sorted / is not indexed')
            if not w[2] and not (tmo and r.get('rep')):
                return ('worker_path', 'the worker returned a temp BAM that lacks records although it reports no timed-out task')
        if r.get('ret') == 'none':
            done = [t for t in (r.get('tasks') or []) if t['outcome'] == 'ok' and t['written']]
            if done:
                return ('worker_none', 'the worker returned None although %d finished task(s) wrote molecules' % len(done))
        if r.get('ret') in ('path', 'none'):
            silent = [t for t in (r.get('tasks') or []) if t['outcome'] == 'timeout']
            if len(silent) != (r.get('timeouts') or 0):
                return ('worker_report', '%d task(s) timed out but the worker reports %s' % (len(silent), r.get('timeouts')))
        if r.get('ret') == 'other':
            return ('worker_ret', 'the worker returned something that is not (path | None, meta)')
        return None

    # ---------------------------------------------------------------- corpus
    def load_corpus(self):
        d = os.path.join(fw.VERIF, 'corpus', 'C20')
        out = []
        if os.path.isdir(d):
            for fn in sorted(os.listdir(d)):
                if fn.endswith('.json'):
                    try:
                        c = json.load(open(os.path.join(d, fn)))
                        if c.get('config') in CONFIGS:
                            e = {'config': c['config'], 'faults': c['faults'], 'pre': c.get('pre', 'fresh')}
                            if c.get('input'):
                                e['input'] = c['input']
                            out.append(e)
                    except Exception:
                        pass
        return out

    def save_corpus(self, cases):
        d = os.path.join(fw.VERIF, 'corpus', 'C20')
        os.makedirs(d, exist_ok=True)
        for c in cases:
            name = fw.canon_hash(json.dumps(c, sort_keys=True)) + '.json'
            with open(os.path.join(d, name), 'w') as f:
                json.dump(c, f)

    # ---------------------------------------------------------------- search
    def search(self):
        """The statement evaluated on the real outcomes (python transcription of the theorems' conclusions: invb /
        invb_rep, 'failed -> status is not OK', 'a returned temp BAM is complete up to reported tasks, sorted, indexed',
        'None only when no finished task wrote'; the model is not needed)."""
        if getattr(self, 'impl_res', None) is None:
            try:
                small_n = 60
                self.probe(small_n)
                self.impl_cases = self.load_corpus() + self.cases()
                self.impl_wcases = self.worker_cases()
                _, self.impl_res = self.run_impl_cases(self.impl_cases, small_n, self.impl_wcases)
            except Exception as e:
                self.notes.append('search could not run the implementation: %r' % (e,))
                return
        best = {}
        for kind, bad, i, is_w in self.spec_violations():
            if is_w:
                c, r = self.impl_wcases[i], self.wres[i]
                pts = '+'.join(f['point'] + (':' + f['exc'] if f.get('exc') else '') for f in c['faults']) or 'none'
                key = '%s:worker:%s' % (kind, pts)
                size = len(c['faults']) * 1000 + sum(f.get('at', 0) + f.get('task', 0) * 10 for f in c['faults']) + c['job']
                wit = {'key': key,
                       'what': '%s; one run_tagging_tasks call on the arguments of job %d of a --multiprocess run (%s), injected: %s; '
                               'observed: returns %s, temp BAM %s, tasks %s, reported %s, exception: %s'
                               % (bad, c['job'], c['config'], json.dumps(c['faults']), r.get('ret'), describe(r['world'])[12:],
                                  r.get('tasks'), r.get('timeouts'), r.get('error')),
                       'input': {'command': 'run_tagging_tasks(<arguments of job %d of run_multiome_tagging_cmd(... %s --multiprocess)>)'
                                            % (c['job'], CONFIGS[c['config']]['method']), 'wcase': c},
                       'impl': {k: r.get(k) for k in ('ret', 'world', 'rep', 'timeouts', 'raised', 'error', 'tasks', 'n_records', 'n_ref')},
                       'expected': 'a returned temp BAM exists, is sorted, indexed and complete except for tasks listed in timeout_tasks; '
                                   'None only when no finished task wrote a molecule'}
            else:
                c, r = self.impl_cases[i], self.impl_res[i]
                w = r['world']
                pts = '+'.join(f['point'] + (':' + f['exc'] if f.get('exc') else '') for f in c['faults']) or 'none'
                if c.get('input'):
                    pts += '@input-' + c['input']
                pipe = 'cluster' if CONFIGS[c['config']].get('noref') else ('multiprocess' if CONFIGS[c['config']]['mp'] else 'single')
                key = '%s:%s:%s' % (kind, pipe, pts)
                size = len(c['faults']) * 1000 + sum(f.get('after', 0) + f.get('at', 0) for f in c['faults']) + (500 if c.get('pre') == 'prev_ok' else 0)
                opts = ' --multiprocess -tagthreads 2' if CONFIGS[c['config']]['mp'] else ''
                opts += ''.join(' ' + x for x in CONFIGS[c['config']].get('extra', []))
                wit = {'key': key,
                       'what': '%s; %s pipeline, method %s, injected: %s; observed %s, blacklisted regions in header: %s, exception: %s'
                               % (bad, pipe, CONFIGS[c['config']]['method'], json.dumps(c['faults']), describe(w), r.get('rep'), r.get('error')),
                       'input': {'command': 'run_multiome_tagging_cmd(<copy of /repo/data/%s> -method %s%s -o out.bam)'
                                 % ('chic_test_region.bam' if CONFIGS[c['config']]['bam'] == 'chic' else 'mini_nla_test.bam (first records)',
                                    CONFIGS[c['config']]['method'], opts),
                                 'case': c},
                       'impl': {'world': describe(w), 'status_text': r.get('status_text'), 'raised': r['raised'], 'error': r.get('error'),
                                'records_in_output': r.get('n_records'), 'segments': r.get('segments'), 'workers': r.get('wjobs')},
                       'expected': 'status != "Reached end. All ok!" unless the output exists, is sorted and indexed and holds every '
                                   'record except those of tasks reported as timed out (blacklisted in the header)'}
            if key not in best or size < best[key][0]:
                best[key] = (size, wit)
        for k in sorted(best, key=lambda k: best[k][0]):
            self.witnesses.append(best[k][1])

    def replay(self, data):
        w = data.get('witness')
        print(json.dumps(w or data.get('no_longer_checks'), indent=1, default=str)[:4000])
        if w and isinstance(w.get('input'), dict) and ('case' in w['input'] or 'wcase' in w['input']):
            self.tier = 'quick'
            self.probe(60)
            if 'case' in w['input']:
                c = w['input']['case']
                r = fw.run_impl('impl_c20.py', {'configs': self.configs(), 'cases': [c], 'small_n': 60})
                o = r['cases'][0]
                print('replayed on %s: %s reported=%s raised=%s error=%s' % (fw.REPO, describe(o['world']), o.get('rep'), o['raised'], o.get('error')))
                bad = self.judge(c, o) if 'world' in o else None
            else:
                c = w['input']['wcase']
                r = fw.run_impl('impl_c20.py', {'configs': self.configs(), 'cases': [], 'wcases': [c], 'small_n': 60})
                o = r['wcases'][0]
                print('replayed on %s: %r' % (fw.REPO, {k: o.get(k) for k in ('ret', 'world', 'rep', 'raised', 'error', 'tasks')}))
                bad = self.judge_worker(c, o) if 'world' in o else None
            print('VIOLATION reproduced: %s' % bad[1] if bad else 'not reproduced on this tree')
            return 1 if bad else 0
        return self.run()
