"""runs the REAL NlaIIIFragment / CHICFragment on in-memory pysam reads for C09.

payload: {'cases': [case, ...], 'bam': [library, ...]}
case = {'kind': 'nla'|'chic', 'cfg': {...constructor kwargs...},
        'reads': [r1|None, r2|None]   (r2 entry optional)}
read = {'start': int, 'cigar': [[op,len],...], 'rev': bool, 'seq': str, 'unmapped': bool, 'qcfail': bool,
        'mx': str|None, 'lh': str|None}
result per case: observation dict (tags of every read, qcfail flags, validity, site) or {'error': 'Type: msg'}
"""
import os, sys, io
import fw

TAGS = ('DS', 'RS', 'RZ', 'RR')
REFLEN = 100000


def header(L=None):
    import pysam
    L = L or REFLEN
    return pysam.AlignmentHeader.from_dict({'HD': {'VN': '1.6', 'SO': 'unsorted'},
                                            'SQ': [{'SN': 'chr1', 'LN': L}, {'SN': 'chr2', 'LN': L}]})


def make_read(h, spec, name, idx, paired):
    import pysam
    a = pysam.AlignedSegment(h)
    a.query_name = name
    a.query_sequence = spec['seq']
    flag = 0
    if paired:
        flag |= 1 | (64 if idx == 0 else 128)
    if spec.get('rev'):
        flag |= 16
    if spec.get('unmapped'):
        flag |= 4
    if spec.get('qcfail'):
        flag |= 512
    a.flag = flag
    a.reference_id = 0
    a.reference_start = spec['start']
    a.mapping_quality = 60
    a.cigartuples = [tuple(x) for x in spec['cigar']]
    a.query_qualities = pysam.qualitystring_to_array('I' * len(spec['seq']))
    a.set_tag('SM', 'CELL_1')
    a.set_tag('RX', spec.get('umi') or 'ACG')
    if spec.get('mx') is not None:
        a.set_tag('MX', spec['mx'])
    if spec.get('lh') is not None:
        a.set_tag('lh', spec['lh'])
    return a


def observe_read(r):
    if r is None:
        return None
    o = {'qcfail': bool(r.is_qcfail)}
    for t in TAGS:
        if r.has_tag(t):
            v = r.get_tag(t)
            o[t] = v if isinstance(v, str) else int(v)
        else:
            o[t] = None
    return o


def run_case(h, case, classes):
    cls = classes[case['kind']]
    specs = case['reads']
    paired = len(specs) > 1 and all(s is not None for s in specs)
    reads = [None if s is None else make_read(h, s, 'q', i, paired or i == 1) for i, s in enumerate(specs)]
    geo = []
    for r in reads:
        if r is None:
            geo.append(None)
        else:
            geo.append({'reference_start': r.reference_start, 'reference_end': r.reference_end,
                        'cigartuples': None if r.cigartuples is None else [list(x) for x in r.cigartuples],
                        'seq': r.seq})
    frag = cls(reads, **case['cfg'])
    loc = frag.site_location
    gl = frag.get_site_location()
    return {'reads': [observe_read(r) for r in reads],
            'geo': geo,
            'valid': bool(frag.is_valid()),
            'found_valid_site': bool(frag.found_valid_site),
            'site_location': None if loc is None else [loc[0], loc[1]],
            'get_site_location': None if gl is None else [gl[0], gl[1]],
            'strand': frag.strand, 'cut_site_strand': frag.cut_site_strand,
            'match_hash': None if frag.match_hash is None else [x for x in frag.match_hash],
            'meta': {k: frag.meta.get(k) for k in TAGS}}


def write_bam(lib, path):
    import pysam
    h = header(lib.get('L'))
    recs = []
    for n, case in enumerate(lib['cases']):
        specs = case['reads']
        paired = len(specs) > 1 and all(s is not None for s in specs)
        rs = [make_read(h, s, 'f%04d' % n, i, paired) for i, s in enumerate(specs) if s is not None]
        if paired:
            a, b = rs
            a.next_reference_id, a.next_reference_start = b.reference_id, b.reference_start
            b.next_reference_id, b.next_reference_start = a.reference_id, a.reference_start
            a.mate_is_reverse, b.mate_is_reverse = b.is_reverse, a.is_reverse
            a.is_proper_pair = b.is_proper_pair = True
        recs += rs
    recs.sort(key=lambda r: r.reference_start)
    with pysam.AlignmentFile(path, 'wb', header=h) as out:
        for r in recs:
            out.write(r)
    pysam.index(path)


def run_bam(lib, classes, molclasses):
    """write the reads of a library to a BAM on disk, read them back through MoleculeIterator with the
    real fragment class and collect the tags written by molecule.write_tags()."""
    import pysam
    from singlecellmultiomics.molecule import MoleculeIterator
    path = os.path.join(os.environ.get('SCMO_SCRATCH', '.'), 'lib%d.bam' % lib['id'])
    write_bam(lib, path)
    res = {}
    with pysam.AlignmentFile(path) as f:
        for mol in MoleculeIterator(f, molclasses[lib['kind']], classes[lib['kind']],
                                    fragment_class_args=dict(lib['cfg'])):
            mol.write_tags()
            for frag in mol:
                for r in frag:
                    if r is not None:
                        res.setdefault(r.query_name, {})['R2' if r.is_read2 else 'R1'] = observe_read(r)
    return res


def run_cli(lib):
    """the command line entry point: bamtagmultiome.py <bam> -method <nla|chic> <flags> -o <out>"""
    import pysam
    from singlecellmultiomics.universalBamTagger import bamtagmultiome as tm
    d = os.environ.get('SCMO_SCRATCH', '.')
    path = os.path.join(d, 'cli%d.bam' % lib['id'])
    outp = os.path.join(d, 'cli%d.tagged.bam' % lib['id'])
    write_bam(lib, path)
    flags = list(lib['flags'])
    if lib.get('ref') is not None:      # reference FASTA for -method nla_no_overhang (both header contigs)
        fa = os.path.join(d, 'cli%d.fa' % lib['id'])
        with open(fa, 'w') as f:
            for name in ('chr1', 'chr2'):
                f.write('>%s\n' % name)
                for i in range(0, len(lib['ref']), 60):
                    f.write(lib['ref'][i:i + 60] + '\n')
        pysam.faidx(fa)
        flags += ['-ref', fa]
    tm.run_multiome_tagging_cmd([path, '-method', lib['kind'], '-o', outp] + flags)
    res = {}
    with pysam.AlignmentFile(outp) as f:
        for r in f:
            res.setdefault(r.query_name, {})['R2' if r.is_read2 else 'R1'] = observe_read(r)
    return res


def run_mol(scen, classes, molclasses):
    """one set of fragments through MoleculeIterator (in-memory read pairs, coordinate order) and
    molecule.write_tags(), like bamtagmultiome does; returns the molecules (member fragments in the order
    they were added, with their own site and strand) and the tags of every read afterwards"""
    from singlecellmultiomics.molecule import MoleculeIterator
    h = header()
    pairs = []
    for n, case in enumerate(scen['cases']):
        specs = case['reads']
        paired = len(specs) > 1 and all(s is not None for s in specs)
        rs = [None if s is None else make_read(h, s, 'f%04d' % n, i, paired) for i, s in enumerate(specs)]
        if paired:
            a, b = rs
            a.next_reference_id, a.next_reference_start = b.reference_id, b.reference_start
            b.next_reference_id, b.next_reference_start = a.reference_id, a.reference_start
            a.mate_is_reverse, b.mate_is_reverse = b.is_reverse, a.is_reverse
            a.is_proper_pair = b.is_proper_pair = True
        pairs.append([rs[0], rs[1] if len(rs) > 1 else None])
    pairs.sort(key=lambda x: x[0].reference_start)
    mols, tags = [], {}
    for mol in MoleculeIterator(pairs, molclasses[scen['kind']], classes[scen['kind']],
                                fragment_class_args=dict(scen['cfg']), yield_invalid=True):
        members = []
        for frag in mol:
            loc = frag.site_location
            members.append({'name': frag[0].query_name, 'site': None if loc is None else loc[1], 'strand': frag.strand})
        ms = getattr(mol, 'site_location', None)
        mol.write_tags()
        for frag in mol:
            for r in frag:
                if r is not None:
                    tags.setdefault(r.query_name, {})['R2' if r.is_read2 else 'R1'] = observe_read(r)
        mols.append({'members': members, 'site': None if ms is None else ms[1]})
    return {'molecules': mols, 'tags': tags}


def run_xcases(xcases, classes):
    """extension stream: NlaIIIFragment(no_overhang=True, reference=CachedFastaNoHandle(<fasta on disk>)) and
    max_fragment_size.  case = {'kind': 'nla'|'chic'|'nla_no', 'cfg': kwargs, 'reads': [r1, r2?], 'ref': contig | None}
    every no_overhang case gets its own contig in one FASTA file; the handle is the class the tagger uses"""
    import pysam
    out = []
    refs = [(i, c['ref']) for i, c in enumerate(xcases) if c.get('ref') is not None]
    handle, names = None, {}
    d = os.environ.get('SCMO_SCRATCH', '.')
    if refs:
        from singlecellmultiomics.fastaProcessing import CachedFastaNoHandle
        fa = os.path.join(d, 'xref.fa')
        seen = {}
        with open(fa, 'w') as f:
            for i, seq in refs:
                if seq not in seen:
                    seen[seq] = 'c%05d' % len(seen)
                    f.write('>%s\n%s\n' % (seen[seq], seq))
                names[i] = seen[seq]
        pysam.faidx(fa)
        handle = CachedFastaNoHandle(fa)
        order = sorted(seen.values())
        hx = pysam.AlignmentHeader.from_dict({'HD': {'VN': '1.6', 'SO': 'unsorted'},
                                              'SQ': [{'SN': n, 'LN': len(s)} for s, n in sorted(seen.items(), key=lambda kv: kv[1])]})
        rid = {n: k for k, n in enumerate(order)}
    h0 = header()
    for i, case in enumerate(xcases):
        try:
            specs = case['reads']
            paired = len(specs) > 1 and all(s is not None for s in specs)
            kw = dict(case['cfg'])
            if case['kind'] == 'nla_no':
                h = hx if i in names else h0
                kw['no_overhang'] = True
                if i in names:
                    kw['reference'] = handle
            else:
                h = h0
            reads = [None if s is None else make_read(h, s, 'q', k, paired or k == 1) for k, s in enumerate(specs)]
            if i in names:
                for r in reads:
                    if r is not None:
                        r.reference_id = rid[names[i]]
            cls = classes['nla' if case['kind'] == 'nla_no' else case['kind']]
            frag = cls(reads, **kw)
            loc = frag.site_location
            out.append({'reads': [observe_read(r) for r in reads], 'valid': bool(frag.is_valid()),
                        'site_location': None if loc is None else [loc[0], loc[1]],
                        'strand': frag.strand, 'cut_site_strand': frag.cut_site_strand,
                        'match_hash': None if frag.match_hash is None else [x for x in frag.match_hash]})
        except BaseException as e:
            out.append({'error': '%s: %s' % (type(e).__name__, e)})
    return out


def handler(p):
    from singlecellmultiomics.fragment import NlaIIIFragment, CHICFragment
    from singlecellmultiomics.molecule import NlaIIIMolecule, CHICMolecule
    classes = {'nla': NlaIIIFragment, 'chic': CHICFragment}
    molclasses = {'nla': NlaIIIMolecule, 'chic': CHICMolecule}
    h = header()
    out, bams, mols, clis, xs = [], [], [], [], []
    old = sys.stdout
    sys.stdout = io.StringIO()
    try:
        for case in p.get('cases', []):
            try:
                out.append(run_case(h, case, classes))
            except BaseException as e:
                out.append({'error': '%s: %s' % (type(e).__name__, e)})
        for lib in p.get('bam', []):
            try:
                bams.append(run_bam(lib, classes, molclasses))
            except BaseException as e:
                bams.append({'error': '%s: %s' % (type(e).__name__, e)})
        for lib in p.get('cli', []):
            try:
                clis.append(run_cli(lib))
            except BaseException as e:
                clis.append({'error': '%s: %s' % (type(e).__name__, e)})
        for scen in p.get('mol', []):
            try:
                mols.append(run_mol(scen, classes, molclasses))
            except BaseException as e:
                mols.append({'error': '%s: %s' % (type(e).__name__, e)})
        if p.get('x'):
            try:
                xs = run_xcases(p['x'], classes)
            except BaseException as e:
                xs = [{'error': 'extension stream: %s: %s' % (type(e).__name__, e)} for _ in p['x']]
    finally:
        sys.stdout = old
    return {'cases': out, 'bam': bams, 'mol': mols, 'cli': clis, 'x': xs}


if __name__ == '__main__':
    fw.impl_main(handler)
