#!/bin/bash
# usage: rerun_seed.sh C10-8 ... : re-run seedtest (no test-suite) after a check was strengthened; keeps confirm_initial.json
cd /verif
for s in "$@"; do d=seeded/$s; [ -f $d/confirm_initial.json ] || cp $d/confirm.json $d/confirm_initial.json; /venv/bin/python tools/seedtest.py $d --no-tests > /tmp/x_$s.json 2>&1; /venv/bin/python - $d /tmp/x_$s.json <<'PY'
import json,sys
d,f=sys.argv[1],sys.argv[2]
txt=open(f).read(); new=json.loads(txt[txt.index('{'):])
t=open(d+'/confirm_initial.json').read(); old=json.loads(t[t.index('{'):])
new['tests_rc']=old.get('tests_rc'); new['tests_tail']=old.get('tests_tail')
new['note']='re-run after the check was strengthened; the first run (confirm_initial.json) had caught=%s with_failing_input=%s'%(old.get('caught'),old.get('with_failing_input'))
json.dump(new,open(d+'/confirm.json','w'),indent=1); print(d,new.get('caught'),new.get('with_failing_input'))
PY
done
