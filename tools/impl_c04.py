"""runs the REAL read-name codec of /repo for C04 (and the reflection part of the GenCodec regeneration).

ops (payload['op']):
  reflect : constants/tables of the imported package (tag table, fqSafe class, ascii_letters, whitespace set)
  batch   : payload['cases'] = list of {'f': name, ...}; one result per case, exceptions -> {'error': 'Type: msg'}
"""
import io, os, sys, warnings
warnings.filterwarnings('ignore')
import fw

_ctx = {}


def err(e):
    # a ValueError that asFastq (or a helper it calls) raises itself is the refusal of an over-long header; it is
    # recognised by where it is raised, not by the wording of its message
    import traceback
    msg = str(e)[:160]
    if isinstance(e, ValueError):
        frames = [f.name for f in traceback.extract_tb(e.__traceback__)]
        if 'asFastq' in frames and 'length of the demultiplexed header' not in msg:
            msg = '[length of the demultiplexed header] ' + msg
    return {'error': '%s: %s' % (type(e).__name__, msg)}


def reflect():
    import string
    import singlecellmultiomics.modularDemultiplexer.baseDemultiplexMethods as B
    rx = B.fastqCleanerRegex
    allc = ''.join(chr(c) for c in range(0x110000))
    kept = [ord(c) for c in B.fqSafe(allc)]
    # single characters must behave like in the bulk run (sample): fqSafe is a per-character filter
    keptset = set(kept)
    for c in list(range(0, 300)) + [0x2028, 0xd800, 0x10ffff]:
        assert (B.fqSafe(chr(c)) == chr(c)) == (c in keptset) and B.fqSafe(chr(c)) in ('', chr(c)), c
    ranges = []
    for c in kept:
        if ranges and ranges[-1][1] == c - 1:
            ranges[-1][1] = c
        else:
            ranges.append([c, c])
    tags = [[t.tag, bool(t.isPhred), bool(t.doNotWrite)] for t in B.TagDefinitions.values()]
    assert list(B.TagDefinitions.keys()) == [t[0] for t in tags]
    return {'fqsafe_pattern': rx.pattern, 'fqsafe_flags': int(rx.flags), 'fqsafe_ranges': ranges,
            'tags': tags, 'ascii_letters': string.ascii_letters,
            'spaces': [c for c in range(0x110000) if chr(c).isspace()],
            'illumina_split_pattern': B.illuminaHeaderSplitRegex.pattern,
            'module_file': B.__file__}


def ctx():
    if not _ctx:
        import pkg_resources
        from singlecellmultiomics.barcodeFileParser.barcodeFileParser import BarcodeParser
        from singlecellmultiomics.modularDemultiplexer.demultiplexingStrategyLoader import DemultiplexingStrategyLoader
        bdir = pkg_resources.resource_filename('singlecellmultiomics', 'modularDemultiplexer/barcodes/')
        idir = pkg_resources.resource_filename('singlecellmultiomics', 'modularDemultiplexer/indices/')
        _ctx['bp'] = BarcodeParser(bdir, lazyLoad='*')
        _ctx['ip'] = BarcodeParser(idir, lazyLoad='*')
        _ctx['alias'] = 'illumina_merged_ThruPlex48S_RP'
        loader = DemultiplexingStrategyLoader(barcodeParser=_ctx['bp'], indexParser=_ctx['ip'],
                                              indexFileAlias=_ctx['alias'])
        _ctx['strategies'] = {s.shortName: s for s in loader.demultiplexingStrategies}
        loader2 = DemultiplexingStrategyLoader(barcodeParser=_ctx['bp'], indexParser=None, indexFileAlias=None)
        _ctx['strategies_noidx'] = {s.shortName: s for s in loader2.demultiplexingStrategies}
        # barcode parser with hamming distance 1 expansion (demux.py -hd 1): raw barcode != assigned barcode
        import singlecellmultiomics.modularDemultiplexer.baseDemultiplexMethods as B
        _ctx['bp1'] = BarcodeParser(bdir, hammingDistanceExpansion=1, lazyLoad='*')
        loader3 = DemultiplexingStrategyLoader(barcodeParser=_ctx['bp1'], indexParser=_ctx['ip'],
                                               indexFileAlias=_ctx['alias'])
        _ctx['strategies_hd1'] = {s.shortName: s for s in loader3.demultiplexingStrategies}
        # custom layouts built directly on UmiBarcodeDemuxMethod: barcode first / UMI first
        for key, bpx in (('strategies', _ctx['bp']), ('strategies_noidx', _ctx['bp']), ('strategies_hd1', _ctx['bp1'])):
            noidx = key == 'strategies_noidx'
            for nm, kw in (('CUSTOM_BC0U8', dict(umiStart=8, umiLength=5, barcodeStart=0, barcodeLength=8)),
                           ('CUSTOM_U0BC3', dict(umiStart=0, umiLength=3, barcodeStart=3, barcodeLength=8))):
                st = B.UmiBarcodeDemuxMethod(umiRead=0, barcodeRead=0, barcodeFileParser=bpx, barcodeFileAlias='maya_384NLA',
                                             indexFileParser=None if noidx else _ctx['ip'],
                                             indexFileAlias=None if noidx else _ctx['alias'], **kw)
                st.shortName = nm
                _ctx[key][nm] = st
    return _ctx


def pyval(v):
    """tag value as python holds it -> [type, printable]"""
    if isinstance(v, bool):
        return ['b', str(v)]
    if isinstance(v, int):
        return ['i', str(v)]
    if isinstance(v, str):
        return ['s', v]
    return ['o', str(v)]


def oracle(header):
    """what the index parser (C03's subject) and the int() test answer for every token of the header"""
    c = ctx()
    import re
    out = []
    for tok in sorted(set(re.split(r'[: ]', header)) | {'N'}):
        try:
            int(tok)
            out.append([tok, [tok, tok]])
            continue
        except ValueError:
            pass
        ident, corrected, hd = c['ip'].getIndexCorrectedBarcodeAndHammingDistance(alias=c['alias'], barcode=tok)
        out.append([tok, None if corrected is None else [str(ident), corrected]])
    return out


def new_read(name, pre=None):
    import pysam
    a = pysam.AlignedSegment()
    a.query_name = name
    a.query_sequence = 'ACGT'
    a.flag = 4
    for k, v in (pre or []):
        a.set_tag(k, v)
    return a


def read_tags(a):
    return sorted([k, 'i' if isinstance(v, int) else 's', str(v)] for k, v in a.get_tags())


def do_case(c):
    import singlecellmultiomics.modularDemultiplexer.baseDemultiplexMethods as B
    from singlecellmultiomics.fastqProcessing.fastqIterator import FastqRecord
    from singlecellmultiomics.universalBamTagger.universalBamTagger import QueryNameFlagger
    f = c['f']
    if f == 'phred_enc':
        return {'out': B.phredToFastqHeaderSafeQualities(c['s'])}
    if f == 'phred_enc_tag':      # through addTagByTag, the way the strategies call it
        tr = B.TaggedRecord(B.TagDefinitions)
        tr.addTagByTag('RQ', c['s'], isPhred=True, cast_type=None)
        return {'out': tr.tags['RQ']}
    if f == 'phred_dec':
        return {'out': B.fastqHeaderSafeQualitiesToPhred(c['s'])}
    if f == 'fqsafe':
        return {'out': B.fqSafe(c['s'])}
    if f == 'encode':             # a tag store -> asFastq
        tr = B.TaggedRecord(B.TagDefinitions)
        for k, t, v in c['store']:
            tr.tags[k] = int(v) if t == 'i' else ((v == 'True') if t == 'b' else v)
        fq = tr.asFastq('ACGT', '+', 'IIII')
        lines = fq.split('\n')
        assert lines[0].startswith('@') and lines[1:] == ['ACGT', '+', 'IIII', ''], 'fastq layout'
        fits = True
        try:
            new_read(lines[0][1:])
        except BaseException as ex:
            fits = err(ex)['error']
        return {'header': lines[0][1:], 'pysam_accepts': fits}
    if f == 'raw':                # TaggedRecord(rawRecord=...) : header parser + library + reason
        x = ctx()
        rec = FastqRecord(c['header'], 'ACGT', '+', 'IIII')
        kw = {}
        if c.get('parser'):
            kw = {'indexFileParser': x['ip'], 'indexFileAlias': x['alias']}
        orc = oracle(c['header']) if c.get('parser') else None
        try:
            tr = B.TaggedRecord(B.TagDefinitions, rawRecord=rec, library=c.get('library'), reason=c.get('reason'), **kw)
        except BaseException as ex:
            return {'error': err(ex)['error'], 'oracle': orc}
        return {'store': [[k] + pyval(v) for k, v in tr.tags.items()], 'oracle': orc}
    if f == 'rawchain':           # raw header -> TaggedRecord -> asFastq -> header -> AlignedSegment -> digest (no strategy)
        x = ctx()
        rec = FastqRecord(c['header'], 'ACGT', '+', 'IIII')
        kw = {'indexFileParser': x['ip'], 'indexFileAlias': x['alias']} if c.get('parser') else {}
        orc = oracle(c['header']) if c.get('parser') else None
        try:
            tr = B.TaggedRecord(B.TagDefinitions, rawRecord=rec, library=c.get('library'), **kw)
        except BaseException as ex:
            return {'error': err(ex)['error'], 'stage': 'record', 'oracle': orc}
        store = [[k] + pyval(v) for k, v in tr.tags.items()]
        try:
            fq = str(tr)
        except BaseException as ex:
            return {'error': err(ex)['error'], 'stage': 'header', 'oracle': orc, 'store': store}
        name = fq.split('\n')[0][1:]
        try:
            a = new_read(name)
        except BaseException as ex:      # pysam itself refuses the name: outside the model
            return {'skip': err(ex)['error'], 'stage': 'pysam', 'oracle': orc, 'store': store, 'header': name}
        try:
            QueryNameFlagger().digest([a])
        except BaseException as ex:
            return {'error': err(ex)['error'], 'stage': 'digest', 'oracle': orc, 'store': store, 'header': name}
        return {'header': name, 'store': store, 'read': {'name': a.query_name, 'tags': read_tags(a)}, 'oracle': orc}
    if f == 'digest':             # query name -> QueryNameFlagger().digest -> name, tags
        reads = [None if r is None else new_read(r[0], r[1]) for r in c['reads']]
        q = QueryNameFlagger()
        e = None
        try:
            q.digest(reads)
        except BaseException as ex:
            e = err(ex)['error']
        return {'reads': [None if a is None else {'name': a.query_name, 'tags': read_tags(a)} for a in reads],
                'raised': e, 'read_groups': sorted(q.assignedReadGroups)}
    if f == 'history':            # ONE QueryNameFlagger digesting a sequence of calls (as MoleculeIterator uses it)
        q = QueryNameFlagger()
        calls = []
        for call in c['calls']:
            reads = [None if r is None else new_read(r[0], r[1]) for r in call]
            e = None
            try:
                q.digest(reads)
            except BaseException as ex:
                e = err(ex)['error']
            alone = []
            for r in call:                      # the same read through a fresh flagger
                if r is None:
                    alone.append(None)
                    continue
                a = new_read(r[0], r[1])
                e1 = None
                try:
                    QueryNameFlagger().digest([a])
                except BaseException as ex:
                    e1 = err(ex)['error']
                alone.append({'name': a.query_name, 'tags': read_tags(a), 'raised': e1})
            calls.append({'reads': [None if a is None else {'name': a.query_name, 'tags': read_tags(a)} for a in reads],
                          'raised': e, 'alone': alone})
        return {'calls': calls, 'read_groups': sorted(q.assignedReadGroups)}
    if f == 'chain':              # strategy.demultiplex -> asFastq -> header -> AlignedSegment -> digest -> tags
        x = ctx()
        st = x[{'idx': 'strategies', 'noidx': 'strategies_noidx', 'hd1': 'strategies_hd1'}[c.get('ctx') or ('idx' if c.get('parser', True) else 'noidx')]][c['strategy']]
        recs = [FastqRecord(*r) for r in c['records']]
        lib = c.get('library')
        if c.get('target_len'):      # pad the library name so that the first header has exactly this length
            o0 = st.demultiplex(recs, library='L')
            h0 = o0[0].split('\n')[0] if isinstance(o0[0], str) else str(o0[0]).split('\n')[0]
            need = c['target_len'] - (len(h0) - 1) + 1
            lib = ((lib or 'x') * (need // max(1, len(lib or 'x')) + 1))[:max(1, need)]
        out = st.demultiplex(recs, library=lib)
        res = {'stores': [], 'headers': [], 'library': lib}
        if c.get('second'):          # the demultiplexed FASTQ demultiplexed a second time with another strategy
            fqs = [tr if isinstance(tr, str) else str(tr) for tr in out]
            recs2 = [FastqRecord(*fq.split('\n')[:4]) for fq in fqs]
            res['first_headers'] = [r2.header for r2 in recs2]
            st2 = x[{'idx': 'strategies', 'noidx': 'strategies_noidx', 'hd1': 'strategies_hd1'}[
                c.get('ctx') or ('idx' if c.get('parser', True) else 'noidx')]][c['second']]
            out = st2.demultiplex(recs2, library=lib)
        reads = []
        for tr in out:
            if isinstance(tr, str):          # the bulk strategy returns fastq text
                fq, store = tr, None
            else:
                store = [[k] + pyval(v) for k, v in tr.tags.items()]
                try:
                    fq = str(tr)             # what FastqHandle.write does
                except BaseException as ex:
                    res['stores'].append(store)
                    res['headers'].append(err(ex))
                    continue
            line = fq.split('\n')[0]
            assert line.startswith('@'), 'fastq layout'
            res['stores'].append(store)
            res['headers'].append({'header': line[1:]})
            reads.append(line[1:])
        if len(reads) == len(out):
            try:
                segs = [new_read(n) for n in reads]
                q = QueryNameFlagger()
                q.digest(segs)
                res['reads'] = [{'name': a.query_name, 'tags': read_tags(a)} for a in segs]
            except BaseException as ex:
                res['reads'] = err(ex)
        return res
    raise ValueError('unknown op ' + f)


def strategies():
    """per registered strategy: where the cell barcode sits and a sample of valid barcodes"""
    x = ctx()
    out = {}
    for name, s in x['strategies'].items():
        alias = getattr(s, 'barcodeFileAlias', None)
        bcs, slices = [], []
        if alias and '10x' not in alias:
            try:
                x['bp'].getIndexCorrectedBarcodeAndHammingDistance(alias=alias, barcode='A')
                bcs = sorted(x['bp'].barcodes[alias].keys())
            except BaseException:
                bcs = []
        if getattr(s, 'barcode_slices', None) is not None:
            for r, sl in enumerate(s.barcode_slices):
                for q in sl:
                    slices.append([r, q.start, q.stop - q.start])
        elif getattr(s, 'barcodeStart', None) is not None:
            slices.append([s.barcodeRead, s.barcodeStart, s.barcodeLength])
        step = max(1, len(bcs) // 24)
        umi = None
        if getattr(s, 'umiLength', 0) and getattr(s, 'umi_slices', None) is None:
            umi = [s.umiRead, s.umiStart, s.umiLength]
        import singlecellmultiomics.modularDemultiplexer.baseDemultiplexMethods as B
        plain = isinstance(s, B.UmiBarcodeDemuxMethod) and type(s).demultiplex is B.UmiBarcodeDemuxMethod.demultiplex
        out[name] = {'barcodes': bcs[::step][:24], 'slices': slices, 'single': 'SINGLE_END' in type(s).__name__,
                     'cls': type(s).__name__, 'umi': umi, 'plain': bool(plain)}
    return out


def handler(p):
    if p['op'] == 'reflect':
        return reflect()
    if p['op'] == 'strategies':
        old = sys.stdout
        sys.stdout = io.StringIO()
        try:
            return strategies()
        finally:
            sys.stdout = old
    res = []
    old = sys.stdout
    sys.stdout = io.StringIO()
    try:
        for c in p['cases']:
            try:
                res.append(do_case(c))
            except BaseException as e:
                res.append(err(e))
    finally:
        sys.stdout = old
    return res


fw.impl_main(handler)
