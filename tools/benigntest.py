"""Run our check against a property-PRESERVING change (benign refactor).
usage: benigntest.py <dir with patch.diff check.py meta.json> [--prop Cxx]
outcome: 'quiet' (check exit 0), 'tie-broken' (exit 1, every VIOLATION line ends in no-failing-input-found: allowed
by the protocol, the proof/correspondence broke on a harmless rewrite) or 'FALSE-ALARM' (a VIOLATION with a concrete
failing input although the property holds)."""
import json, os, subprocess, sys, tempfile, shutil, time
V = os.path.dirname(os.path.dirname(os.path.abspath(__file__)))
d = os.path.abspath(sys.argv[1])
meta = json.load(open(os.path.join(d, 'meta.json')))
pid = meta['property']
for i, a in enumerate(sys.argv):
    if a == '--prop':
        pid = sys.argv[i + 1]
wt = tempfile.mkdtemp(prefix='benignwt_%s_' % pid, dir='/tmp')
os.rmdir(wt)


def run(cmd, env=None, cwd=None, timeout=3600):
    e = dict(os.environ); e.update(env or {})
    p = subprocess.run(cmd, shell=True, capture_output=True, text=True, env=e, cwd=cwd, timeout=timeout)
    return p.returncode, (p.stdout + p.stderr)


res = {'dir': d, 'property': pid}
try:
    rc, out = run('git -C /repo worktree add -q --detach %s HEAD' % wt)
    assert rc == 0, out
    rc, out = run('git -C %s apply %s' % (wt, os.path.join(d, 'patch.diff')))
    res['applies'] = rc == 0
    if rc == 0:
        rc0, o0 = run('/venv/bin/python %s' % os.path.join(d, 'check.py'), {'PYTHONPATH': '/repo', 'PYTHONHASHSEED': '0'}, cwd=tempfile.gettempdir())
        rc1, o1 = run('/venv/bin/python %s' % os.path.join(d, 'check.py'), {'PYTHONPATH': wt, 'PYTHONHASHSEED': '0'}, cwd=tempfile.gettempdir())
        res['propcheck_original_rc'], res['propcheck_changed_rc'] = rc0, rc1
        if '--tests' in sys.argv:
            rct, ot = run('/venv/bin/python -m pytest -q -p no:cacheprovider --timeout=900', {'PYTHONPATH': wt, 'PYTHONHASHSEED': '0'}, cwd=wt)
            res['tests_rc'] = rct
        t = time.time()
        rcc, oc = run('./check %s --tier quick' % pid, {'SCMO_REPO': wt}, cwd=V)
        res['check_rc'] = rcc
        res['check_wall_s'] = round(time.time() - t, 1)
        lines = [l for l in oc.splitlines() if l.startswith(('VIOLATION', pid + ' ', '  broken['))]
        res['check_lines'] = lines[:8]
        viol = [l for l in oc.splitlines() if l.startswith('VIOLATION')]
        if rcc == 0:
            res['outcome'] = 'quiet'
        elif viol and all(l.rstrip().endswith('no-failing-input-found') for l in viol):
            res['outcome'] = 'tie-broken'
        else:
            res['outcome'] = 'FALSE-ALARM'
            for l in viol:
                if 'replay=' in l and not l.rstrip().endswith('no-failing-input-found'):
                    rp = l.split('replay=')[1].split()[0]
                    try:
                        w = json.load(open(rp)).get('witness', {})
                        res['witness'] = {'key': w.get('key'), 'what': str(w.get('what'))[:600]}
                    except Exception:
                        pass
                    break
finally:
    run('git -C /repo worktree remove --force %s' % wt)
    shutil.rmtree(wt, ignore_errors=True)
print(json.dumps(res, indent=1))
