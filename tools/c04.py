"""C04 - read-name codec: FASTQ header -> BAM tags restores every field.

T: coq/Gen/GenCodec.v is regenerated on every run from the source under check (AST of
baseDemultiplexMethods.py for the clamp expression / length limit / separators / name format, reflection on the
imported package for the tag table, the fqSafe character class, string.ascii_letters and str.isspace) - fail closed.
It also carries the CONTROL-FLOW TABLES of the codec (extract_tables): the header forms of _parse_illumina_header (which
piece goes to which tag), the scmo / 3-DEC parsers, the decoder flags of fromTaggedBamRecord, the sample-name chain, the
molecule / read-group recipes and the guards of QueryNameFlagger.digest; Model/C04x.v interprets them and Proofs/C04*.v
prove the round trip for every table satisfying wf_codec / wf_form, which the generated tables do by computation.
K: the real chain strategy.demultiplex -> str(TaggedRecord) (=asFastq) -> header line -> pysam.AlignedSegment ->
QueryNameFlagger().digest -> get_tags() against the model, plus each codec function on its own, raw headers with every
number of fields / separator placement through TaggedRecord -> asFastq -> digest (no strategy), malformed query names,
and the demultiplexer on its own headers.
"""
import ast, hashlib, json, os, re, string as _string
import fw, py2coq
from py2coq import Untranslatable

SRC = 'singlecellmultiomics/modularDemultiplexer/baseDemultiplexMethods.py'
BAM_QNAME_MAX = 254   # l_read_name is a uint8 that counts the trailing NUL and htslib pads: 254 usable characters


# ============================================================================ T: GenCodec.v
def _eval_const(node, what):
    """evaluate a constant python expression that may only mention string.* and len"""
    for n in ast.walk(node):
        if isinstance(n, ast.Name) and n.id not in ('string', 'len'):
            raise Untranslatable('%s: unexpected name %s in %s' % (what, n.id, ast.unparse(node)))
        if isinstance(n, ast.Call) and not (isinstance(n.func, ast.Name) and n.func.id == 'len'):
            raise Untranslatable('%s: unexpected call in %s' % (what, ast.unparse(node)))
    return eval(compile(ast.Expression(node), '<gen>', 'eval'), {'string': _string, 'len': len, '__builtins__': {}})


def _join_comp(node, what):
    """"".join([ELT for X in ARG]) / generator -> (ELT, X, ARG)"""
    if not (isinstance(node, ast.Call) and isinstance(node.func, ast.Attribute) and node.func.attr == 'join'
            and isinstance(node.func.value, ast.Constant) and node.func.value.value == '' and len(node.args) == 1
            and isinstance(node.args[0], (ast.ListComp, ast.GeneratorExp))):
        raise Untranslatable('%s: not "".join(comprehension): %s' % (what, ast.unparse(node)[:120]))
    comp = node.args[0]
    if len(comp.generators) != 1 or comp.generators[0].ifs or comp.generators[0].is_async \
            or not isinstance(comp.generators[0].target, ast.Name) or not isinstance(comp.generators[0].iter, ast.Name):
        raise Untranslatable('%s: comprehension form' % what)
    return comp.elt, comp.generators[0].target.id, comp.generators[0].iter.id


def _default_branch(fn, what):
    """statements executed when `method` keeps its default value"""
    args = [a.arg for a in fn.args.args]
    if 'method' not in args:
        raise Untranslatable('%s: no method argument' % what)
    dflt = fn.args.defaults[args.index('method') - (len(args) - len(fn.args.defaults))]
    if not isinstance(dflt, ast.Constant):
        raise Untranslatable('%s: default of method' % what)
    m = dflt.value
    body = [s for s in fn.body if not (isinstance(s, ast.Expr) and isinstance(s.value, ast.Constant))]
    while True:
        if len(body) == 1 and isinstance(body[0], ast.Return):
            return body[0].value
        if len(body) == 1 and isinstance(body[0], ast.If):
            t = body[0].test
            if not (isinstance(t, ast.Compare) and isinstance(t.left, ast.Name) and t.left.id == 'method'
                    and len(t.ops) == 1 and isinstance(t.ops[0], ast.Eq) and isinstance(t.comparators[0], ast.Constant)):
                raise Untranslatable('%s: test form %s' % (what, ast.unparse(t)))
            body = body[0].body if m == t.comparators[0].value else body[0].orelse
            continue
        raise Untranslatable('%s: body form' % what)


def extract_ast(src):
    tree = ast.parse(src)
    out = {}
    # ---- phredToFastqHeaderSafeQualities
    fn = py2coq.find_function(tree, 'phredToFastqHeaderSafeQualities')
    ret = _default_branch(fn, 'phred_enc')
    elt, x, arg = _join_comp(ret, 'phred_enc')
    if arg != fn.args.args[0].arg:
        raise Untranslatable('phred_enc: iterates over %s' % arg)
    ok = (isinstance(elt, ast.Subscript) and isinstance(elt.slice, ast.Call) and isinstance(elt.slice.func, ast.Name)
          and elt.slice.func.id == 'min' and len(elt.slice.args) == 2)
    if ok:
        mx, hi = elt.slice.args
        ok = (isinstance(mx, ast.Call) and isinstance(mx.func, ast.Name) and mx.func.id == 'max' and len(mx.args) == 2)
    if ok:
        lo, diff = mx.args
        ok = (isinstance(diff, ast.BinOp) and isinstance(diff.op, ast.Sub) and ast.unparse(diff.left) == 'ord(%s)' % x)
    if not ok:
        raise Untranslatable('phred_enc: element is not TABLE[min(max(LO, ord(x) - OFF), HI)]: ' + ast.unparse(elt))
    out['enc_table'] = _eval_const(elt.value, 'enc_table')
    out['enc_lo'] = _eval_const(lo, 'enc_lo')
    out['enc_off'] = _eval_const(diff.right, 'enc_off')
    out['enc_hi'] = _eval_const(hi, 'enc_hi')
    out['enc_src'] = ast.unparse(elt)
    # ---- fastqHeaderSafeQualitiesToPhred
    fn = py2coq.find_function(tree, 'fastqHeaderSafeQualitiesToPhred')
    body = [s for s in fn.body if not (isinstance(s, ast.Expr) and isinstance(s.value, ast.Constant))]
    if len(body) != 1 or not isinstance(body[0], ast.Return):
        raise Untranslatable('phred_dec: body form')
    elt, x, arg = _join_comp(body[0].value, 'phred_dec')
    if arg != fn.args.args[0].arg:
        raise Untranslatable('phred_dec: iterates over %s' % arg)
    ok = (isinstance(elt, ast.Call) and isinstance(elt.func, ast.Name) and elt.func.id == 'chr' and len(elt.args) == 1
          and isinstance(elt.args[0], ast.BinOp) and isinstance(elt.args[0].op, ast.Add))
    if ok:
        ix, off = elt.args[0].left, elt.args[0].right
        ok = (isinstance(ix, ast.Call) and isinstance(ix.func, ast.Attribute) and ix.func.attr == 'index'
              and len(ix.args) == 1 and ast.unparse(ix.args[0]) == x)
    if not ok:
        raise Untranslatable('phred_dec: element is not chr(TABLE.index(v) + OFF): ' + ast.unparse(elt))
    out['dec_table'] = _eval_const(ix.func.value, 'dec_table')
    out['dec_off'] = _eval_const(off, 'dec_off')
    # ---- TaggedRecord.asFastq
    fn = py2coq.find_function(tree, 'TaggedRecord.asFastq')
    tail = fn.body[-3:]
    if len(tail) != 3 or not (isinstance(tail[0], ast.Assign) and isinstance(tail[1], ast.If) and isinstance(tail[2], ast.Return)):
        raise Untranslatable('asFastq: last three statements are not header=..., if ..., return')
    asg = tail[0]
    try:
        sep = asg.value.func.value.value
        kv = asg.value.args[0].elt.values[1].value
    except Exception:
        raise Untranslatable('asFastq: header expression form: ' + ast.unparse(asg)[:200])
    templ = "header = %r.join([f'{attribute}%s{value}' for attribute, value in self.tags.items() " \
            "if not self.tagDefinitions[attribute].doNotWrite])" % (sep, kv)
    if not (isinstance(sep, str) and isinstance(kv, str) and len(sep) == 1 and len(kv) == 1) or ast.unparse(asg) != templ:
        raise Untranslatable('asFastq: header expression changed: ' + ast.unparse(asg)[:240])
    out['enc_item_sep'], out['enc_kv_sep'] = ord(sep), ord(kv)
    m = re.fullmatch(r'len\(header\) (>|>=) (\d+)', ast.unparse(tail[1].test))
    if not m or tail[1].orelse or not isinstance(tail[1].body[0], ast.Raise) \
            or not ast.unparse(tail[1].body[0]).startswith('raise ValueError('):
        raise Untranslatable('asFastq: length test form: ' + ast.unparse(tail[1].test))
    out['header_limit'] = int(m.group(2)) - (1 if m.group(1) == '>=' else 0)
    rv = tail[2].value
    ok = (isinstance(rv, ast.JoinedStr) and len(rv.values) >= 3 and isinstance(rv.values[0], ast.Constant)
          and isinstance(rv.values[1], ast.FormattedValue) and ast.unparse(rv.values[1].value) == 'header'
          and isinstance(rv.values[2], ast.Constant) and rv.values[2].value.startswith('\n'))
    if not ok:
        raise Untranslatable('asFastq: return form: ' + ast.unparse(rv)[:120])
    out['fastq_prefix'] = [ord(c) for c in rv.values[0].value]
    # (the separators of fromTaggedBamRecord come from the template of tagger_side, with role checks)
    # ---- asIlluminaHeader
    fn = py2coq.find_function(tree, 'TaggedRecord.asIlluminaHeader')
    body = [s for s in fn.body if not (isinstance(s, ast.Expr) and isinstance(s.value, ast.Constant))]
    ok = len(body) == 1 and isinstance(body[0], ast.Return)
    if ok:
        c = body[0].value
        ok = (isinstance(c, ast.Call) and isinstance(c.func, ast.Attribute) and c.func.attr == 'format'
              and isinstance(c.func.value, ast.Constant) and not c.args and len(c.keywords) == 1
              and c.keywords[0].arg is None and ast.unparse(c.keywords[0].value) == 'self.tags')
    if not ok:
        raise Untranslatable('asIlluminaHeader: form')
    fmt = c.func.value.value
    keys = re.findall(r'\{(\w+)\}', fmt)
    seps = re.split(r'\{\w+\}', fmt)
    if not keys or seps[0] or seps[-1] or len(set(seps[1:-1])) != 1 or len(seps[1]) != 1 or '{' in ''.join(seps):
        raise Untranslatable('asIlluminaHeader: format string %r' % fmt)
    out['name_keys'], out['name_sep'] = keys, ord(seps[1])
    # ---- tagPysamRead: molecule identifier recipe
    fn = py2coq.find_function(tree, 'TaggedRecord.tagPysamRead')
    found = [s for s in ast.walk(fn) if isinstance(s, ast.Assign) and ast.unparse(s.targets[0]) == 'moleculeIdentifiyingTags']
    if len(found) != 1:
        raise Untranslatable('tagPysamRead: moleculeIdentifiyingTags')
    mol = ast.literal_eval(found[0].value)
    if not all(isinstance(t, tuple) and len(t) == 3 and isinstance(t[0], str) and (t[1] is None or isinstance(t[1], str))
               and isinstance(t[2], bool) for t in mol):
        raise Untranslatable('tagPysamRead: moleculeIdentifiyingTags entries')
    out['mol_tags'] = [list(t) for t in mol]
    return out


def scan_written_tags(repo):
    """tags the demultiplexer side writes phred-encoded (addTagByTag(..., isPhred=True)) and plainly
    (tags['XX'] = ..., tags.update({...}), addTagByTag(..., isPhred=False)); tagPysamRead (tagger side) excluded"""
    root = os.path.join(repo, 'singlecellmultiomics', 'modularDemultiplexer')
    enc, plain = set(), set()
    for dp, dn, fn in sorted(os.walk(root)):
        for f in sorted(fn):
            if not f.endswith('.py'):
                continue
            tree = ast.parse(open(os.path.join(dp, f)).read())
            skip = set()
            for n in ast.walk(tree):
                if isinstance(n, ast.FunctionDef) and n.name in ('tagPysamRead',):
                    skip |= set(id(x) for x in ast.walk(n))
            for n in ast.walk(tree):
                if id(n) in skip:
                    continue
                if isinstance(n, ast.Call) and isinstance(n.func, ast.Attribute) and n.func.attr == 'addTagByTag' and n.args \
                        and isinstance(n.args[0], ast.Constant) and isinstance(n.args[0].value, str):
                    kw = {k.arg: k.value for k in n.keywords}
                    ph = kw.get('isPhred', n.args[2] if len(n.args) > 2 else None)
                    if isinstance(ph, ast.Constant) and ph.value is True:
                        enc.add(n.args[0].value)
                    elif isinstance(ph, ast.Constant) and ph.value is False:
                        plain.add(n.args[0].value)
                    elif ph is not None:
                        raise Untranslatable('%s:%d addTagByTag isPhred is not a constant' % (f, n.lineno))
                if isinstance(n, ast.Assign):
                    for t in n.targets:
                        if isinstance(t, ast.Subscript) and isinstance(t.value, ast.Attribute) and t.value.attr == 'tags' \
                                and isinstance(t.slice, ast.Constant) and isinstance(t.slice.value, str):
                            plain.add(t.slice.value)
                if isinstance(n, ast.Call) and isinstance(n.func, ast.Attribute) and n.func.attr == 'update' \
                        and isinstance(n.func.value, ast.Attribute) and n.func.value.attr == 'tags' and n.args \
                        and isinstance(n.args[0], ast.Dict):
                    for k in n.args[0].keys:
                        if isinstance(k, ast.Constant) and isinstance(k.value, str):
                            plain.add(k.value)
    if enc & plain:
        raise Untranslatable('tags written both encoded and plain: %r' % sorted(enc & plain))
    return sorted(enc), sorted(plain)


# ============================================================================ T: the control-flow tables
# Which piece of a header goes to which tag, in which order tags are derived, the separators / flags of the decoder, the
# sample-name chain and the read-group recipe are extracted as DATA.  Every function is first compared with a template of
# its normalised source (ast.unparse) in which the data are named groups and the ROLES are back-references (the name
# that is unpacked is the name that is stored, the key variable is the first argument of addTagByTag, ...); anything
# outside the template makes the extractor refuse (fail closed -> the pinned tables + K take over, fw.PropBase._run).
TAGGER_SRC = 'singlecellmultiomics/universalBamTagger/universalBamTagger.py'

Q = r"'(?:[^'\\]|\\.)*'"          # a python string literal as ast.unparse prints it


def _lit(s):
    return ast.literal_eval(s)


def _fn_text(tree, qualname):
    fn = py2coq.find_function(tree, qualname)
    body = [s for s in fn.body if not (isinstance(s, ast.Expr) and isinstance(s.value, ast.Constant))]
    fn2 = ast.FunctionDef(name=fn.name, args=fn.args, body=body or [ast.Pass()], decorator_list=[], returns=None,
                          type_comment=None, lineno=0, col_offset=0)
    try:
        fn2.type_params = []
    except Exception:
        pass
    return fn, ast.unparse(ast.fix_missing_locations(fn2))


def _match(templ, text, what):
    m = re.fullmatch(templ, text)
    if not m:
        raise Untranslatable('%s: source left the recognised shape:\n%s' % (what, text[:700]))
    return m


def _char(s, what):
    v = _lit(s)
    if not (isinstance(v, str) and len(v) == 1):
        raise Untranslatable('%s: %r is not a single character' % (what, v))
    return v


def _tag(s, what):
    v = _lit(s) if s[:1] in '\'"' else s
    if not (isinstance(v, str) and len(v) == 2):
        raise Untranslatable('%s: %r is not a 2-character tag' % (what, v))
    return v


# ---------------------------------------------------------------- _parse_illumina_header: the forms
def _split_spec(call, hdr, regex_seps, what):
    """the pieces expression of one form -> (deleted substring, separator characters)"""
    def header_expr(x):
        if isinstance(x, ast.Name) and x.id == hdr:
            return None
        if (isinstance(x, ast.Call) and isinstance(x.func, ast.Attribute) and x.func.attr == 'replace' and not x.keywords
                and isinstance(x.func.value, ast.Name) and x.func.value.id == hdr and len(x.args) == 2
                and all(isinstance(a, ast.Constant) and isinstance(a.value, str) for a in x.args)):
            return (x.args[0].value, x.args[1].value)
        raise Untranslatable('%s: split applied to %s' % (what, ast.unparse(x)))
    if not (isinstance(call, ast.Call) and isinstance(call.func, ast.Attribute) and call.func.attr == 'split' and not call.keywords):
        raise Untranslatable('%s: not a split: %s' % (what, ast.unparse(call)))
    recv = call.func.value
    if isinstance(recv, ast.Name) and recv.id == 'illuminaHeaderSplitRegex':
        if len(call.args) != 1:
            raise Untranslatable('%s: regex split arguments' % what)
        seps, rep = list(regex_seps), header_expr(call.args[0])
    else:
        if len(call.args) != 1 or not (isinstance(call.args[0], ast.Constant) and isinstance(call.args[0].value, str)
                                       and len(call.args[0].value) == 1):
            raise Untranslatable('%s: split arguments %s' % (what, ast.unparse(call)))
        seps, rep = [call.args[0].value], header_expr(recv)
    dele = ''
    if rep is not None:
        old, new = rep
        if new == '' and len(old) >= 1:
            dele = old
        elif len(old) == 1 and len(new) == 1 and new in seps:
            if old not in seps:
                seps.append(old)          # replace(a, sep).split(sep) = split on either character
        else:
            raise Untranslatable('%s: replace(%r, %r) before the split' % (what, old, new))
    return dele, seps


def illumina_forms(tree, regex_pattern):
    fn = py2coq.find_function(tree, 'TaggedRecord._parse_illumina_header')
    args = [a.arg for a in fn.args.args]
    if len(args) != 4 or fn.args.vararg or fn.args.kwarg or fn.args.kwonlyargs:
        raise Untranslatable('_parse_illumina_header: signature')
    hdr, par, ali = args[1:]
    if not re.fullmatch(r'.(\|.)*', regex_pattern):
        raise Untranslatable('illuminaHeaderSplitRegex %r is not an alternation of single characters' % regex_pattern)
    regex_seps = regex_pattern.split('|')
    body = [s for s in fn.body if not (isinstance(s, ast.Expr) and isinstance(s.value, ast.Constant))]
    if len(body) != 3 or not isinstance(body[0], ast.Try) or not isinstance(body[1], ast.Expr) or not isinstance(body[2], ast.If):
        raise Untranslatable('_parse_illumina_header: body is not try / tags.update / if')
    # ---- the dictionary handed to self.tags.update
    up = body[1].value
    if not (isinstance(up, ast.Call) and ast.unparse(up.func) == 'self.tags.update' and len(up.args) == 1 and not up.keywords
            and isinstance(up.args[0], ast.Dict)):
        raise Untranslatable('_parse_illumina_header: second statement is not self.tags.update({...})')
    assign = []
    for k, v in zip(up.args[0].keys, up.args[0].values):
        if not (isinstance(k, ast.Constant) and isinstance(k.value, str) and len(k.value) == 2 and isinstance(v, ast.Name)):
            raise Untranslatable('_parse_illumina_header: update entry %s' % ast.unparse(up.args[0]))
        assign.append((k.value, v.id))
    if len(set(k for k, v in assign)) != len(assign):
        raise Untranslatable('_parse_illumina_header: a tag occurs twice in the update')
    # ---- the index part
    t = ast.unparse(body[2])
    W = r'(\w+)'
    m = _match(
        r"if %s is not None and %s is not None:\n"
        r"    try:\n"
        r"        \w+ = int\((?P<idx>\w+)\)\n"
        r"        (?P<id>\w+), (?P<co>\w+), (?P<hd>\w+) = \((?P=idx), (?P=idx), 0\)\n"
        r"    except ValueError:\n"
        r"        (?P=id), (?P=co), (?P=hd) = %s\.getIndexCorrectedBarcodeAndHammingDistance\(alias=%s, barcode=(?P=idx)\)\n"
        r"    self\.tags\[(?P<raw>%s)\] = (?P=idx)\n"
        r"    if (?P=co) is not None:\n"
        r"        self\.tags\.update\(\{(?P<t1>%s): (?P<v1>\w+), (?P<t2>%s): (?P<v2>\w+)\}\)\n"
        r"    else:\n"
        r"        raise NonMultiplexable\(.*\)\n"
        r"else:\n"
        r"    self\.tags\[(?P<raw2>%s)\] = (?P=idx)" % (par, ali, par, ali, Q, Q, Q, Q), t, '_parse_illumina_header (index part)')
    if m.group('raw') != m.group('raw2'):
        raise Untranslatable('_parse_illumina_header: raw index stored under two tags')
    role = {m.group('co'): 0, m.group('id'): 1}
    if len(role) != 2 or m.group('v1') not in role or m.group('v2') not in role or m.group('v1') == m.group('v2'):
        raise Untranslatable('_parse_illumina_header: index update uses %s, %s' % (m.group('v1'), m.group('v2')))
    idxvar = m.group('idx')
    index = {'raw': _tag(m.group('raw'), 'index tag'),
             'found': [[_tag(m.group('t1'), 'index tag'), role[m.group('v1')]], [_tag(m.group('t2'), 'index tag'), role[m.group('v2')]]]}
    # ---- the forms: nested try / except
    forms, node = [], body[0]
    while True:
        if not isinstance(node, ast.Try) or node.orelse or node.finalbody or len(node.handlers) != 1:
            raise Untranslatable('_parse_illumina_header: try form')
        h = node.handlers[0]
        if h.name is not None or (h.type is not None and ast.unparse(h.type) not in ('BaseException', 'Exception', 'ValueError')):
            raise Untranslatable('_parse_illumina_header: handler %s' % ast.unparse(h))
        st = node.body
        if not (st and isinstance(st[0], ast.Assign) and len(st[0].targets) == 1 and isinstance(st[0].targets[0], ast.Tuple)
                and all(isinstance(e, ast.Name) for e in st[0].targets[0].elts)):
            raise Untranslatable('_parse_illumina_header: a form does not start with a tuple unpacking')
        names = [e.id for e in st[0].targets[0].elts]
        if len(set(names)) != len(names):
            raise Untranslatable('_parse_illumina_header: a name is bound twice in one unpacking')
        dele, seps = _split_spec(st[0].value, hdr, regex_seps, '_parse_illumina_header form %d' % (len(forms) + 1))
        bound = {n: [0, i, ''] for i, n in enumerate(names)}
        for s in st[1:]:
            if not (isinstance(s, ast.Assign) and len(s.targets) == 1 and isinstance(s.targets[0], ast.Name)
                    and isinstance(s.value, ast.Constant) and type(s.value.value) in (str, int)):
                raise Untranslatable('_parse_illumina_header: statement after the unpacking: %s' % ast.unparse(s))
            bound[s.targets[0].id] = [1, 0, s.value.value] if isinstance(s.value.value, str) else [2, s.value.value, '']
        for k, v in assign:
            if v not in bound:
                raise Untranslatable('_parse_illumina_header: %s (tag %s) is not bound by form %d' % (v, k, len(forms) + 1))
        if idxvar not in bound or bound[idxvar][0] == 2:
            raise Untranslatable('_parse_illumina_header: index variable %s in form %d' % (idxvar, len(forms) + 1))
        forms.append({'delete': dele, 'seps': seps, 'n': len(names), 'assign': [[k, bound[v]] for k, v in assign],
                      'index': bound[idxvar]})
        hb = h.body
        if len(hb) == 1 and isinstance(hb[0], ast.Try):
            node = hb[0]
            continue
        if len(hb) == 1 and isinstance(hb[0], ast.Raise) and hb[0].exc is None:
            break
        raise Untranslatable('_parse_illumina_header: handler body %s' % ast.unparse(h)[:200])
    # parse_illumina_header must be the plain delegation
    fn2, t2 = _fn_text(tree, 'TaggedRecord.parse_illumina_header')
    _match(r"def parse_illumina_header\(self, (\w+), indexFileParser=None, indexFileAlias=None\):\n"
           r"    return self\._parse_illumina_header\(\1\.header, indexFileParser=indexFileParser, indexFileAlias=indexFileAlias\)",
           t2, 'parse_illumina_header')
    return forms, index


def dict_assign(text, what):
    d = ast.parse(text, mode='eval').body
    out = []
    for k, v in zip(d.keys, d.values):
        if not (isinstance(k, ast.Constant) and isinstance(k.value, str) and len(k.value) == 2 and isinstance(v, ast.Name)):
            raise Untranslatable('%s: entry %s' % (what, ast.unparse(d)))
        out.append((k.value, v.id))
    if len(set(k for k, v in out)) != len(out):
        raise Untranslatable('%s: a tag occurs twice' % what)
    return out


def raw_side(tree):
    out = {}
    # ---- fromRawFastq
    fn, t = _fn_text(tree, 'TaggedRecord.fromRawFastq')
    m = _match(r"def fromRawFastq\(self, (?P<r>\w+), (?P<p>\w+)=None, (?P<a>\w+)=None\):\n"
               r"    try:\n"
               r"        self\.parse_illumina_header\((?P=r), (?P=p), (?P=a)\)\n"
               r"    except BaseException:\n"
               r"        if (?P=r)\.header\.startswith\((?P<pre>%s)\):\n"
               r"            self\.parse_scmo_header\((?P=r), (?P=p), (?P=a)\)\n"
               r"        else:\n"
               r"            self\.parse_3dec_header\((?P=r), (?P=p), (?P=a)\)" % Q, t, 'fromRawFastq')
    out['scmo_prefix'] = _lit(m.group('pre'))
    # ---- parse_scmo_header
    fn, t = _fn_text(tree, 'TaggedRecord.parse_scmo_header')
    m = _match(r"def parse_scmo_header\(self, (?P<r>\w+), \w+, \w+\):\n"
               r"    self\.tags\.update\(dict\(\((?P<kv>\w+)\.split\((?P<kvs>%s)\) for (?P=kv) in (?P=r)\.header(?P<strip>\.strip\(\))?"
               r"\[(?P<drop>\d+):\]\.split\((?P<is>%s)\)\)\)\)" % (Q, Q), t, 'parse_scmo_header')
    out['scmo'] = {'strip': bool(m.group('strip')), 'drop': int(m.group('drop')), 'item_sep': _char(m.group('is'), 'scmo'),
                   'kv_sep': _char(m.group('kvs'), 'scmo')}
    # ---- parse_3dec_header
    fn, t = _fn_text(tree, 'TaggedRecord.parse_3dec_header')
    m = _match(r"def parse_3dec_header\(self, (?P<r>\w+), \w+, \w+\):\n"
               r"(?P<defaults>(?:    \w+ = %s\n)*)"
               r"    if (?P=r)\.header\.count\((?P<c>%s)\) == (?P<n>\d+):\n"
               r"        (?P<names>\w+(?:, \w+)*) = (?P=r)\.header\.split\((?P<c2>%s)\)\n"
               r"        assert (?P<chk>\w+) == (?P<val>%s)\n"
               r"    else:\n"
               r"        raise\n"
               r"    self\.tags\.update\((?P<dict>\{.*\})\)" % (Q, Q, Q, Q), t, 'parse_3dec_header')
    sep = _char(m.group('c'), '3dec')
    names = m.group('names').split(', ')
    if _char(m.group('c2'), '3dec') != sep or len(names) != int(m.group('n')) + 1 or len(set(names)) != len(names) \
            or m.group('chk') not in names:
        raise Untranslatable('parse_3dec_header: count / split / assert do not fit together')
    bound = {}
    for line in m.group('defaults').splitlines():
        n, v = line.strip().split(' = ', 1)
        bound[n] = [1, 0, _lit(v)]
    for i, n in enumerate(names):
        bound[n] = [0, i, '']
    assign = dict_assign(m.group('dict'), 'parse_3dec_header')
    for k, v in assign:
        if v not in bound:
            raise Untranslatable('parse_3dec_header: %s is not bound' % v)
    out['threedec'] = {'sep': sep, 'nsep': int(m.group('n')), 'check': names.index(m.group('chk')), 'value': _lit(m.group('val')),
                       'assign': [[k, bound[v]] for k, v in assign]}
    return out


def tagger_side(tree, tree_tagger):
    out = {}
    # ---- addTagByTag: what happens to a value stored with isPhred=False and the default arguments
    fn, t = _fn_text(tree, 'TaggedRecord.addTagByTag')
    m = _match(r"def addTagByTag\(self, (?P<k>\w+), (?P<v>\w+), isPhred=None, decodePhred=False, cast_type=str, make_safe=(?P<ms>True|False)\):\n"
               r"    if isPhred is None:\n"
               r"        isPhred = self\.tagDefinitions\[(?P=k)\]\.isPhred\n"
               r"    if cast_type and \(not isinstance\((?P=v), cast_type\)\):\n"
               r"        (?P=v) = cast_type\((?P=v)\)\n"
               r"    if isPhred:\n"
               r"        if decodePhred:\n"
               r"            self\.tags\[(?P=k)\] = fastqHeaderSafeQualitiesToPhred\((?P=v), method=3\)\n"
               r"        else:\n"
               r"            self\.tags\[(?P=k)\] = phredToFastqHeaderSafeQualities\((?P=v), method=3\)\n"
               r"    elif cast_type is str:\n"
               r"        if make_safe:\n"
               r"            self\.tags\[(?P=k)\] = fqSafe\((?P=v)\)\n"
               r"        else:\n"
               r"            self\.tags\[(?P=k)\] = (?P=v)\n"
               r"    else:\n"
               r"        self\.tags\[(?P=k)\] = (?P=v)", t, 'addTagByTag')
    out['make_safe'] = m.group('ms') == 'True'
    # ---- fromTaggedBamRecord
    fn, t = _fn_text(tree, 'TaggedRecord.fromTaggedBamRecord')
    loop = (r"for (?P<kv%(i)s>\w+) in %(it)s\.split\((?P<is%(i)s>" + Q + r")\):\n"
            r"%(ind)s    (?P<k%(i)s>\w+), (?P<v%(i)s>\w+) = (?P=kv%(i)s)\.split\((?P<ks%(i)s>" + Q + r")(?:, (?P<mx%(i)s>-?\d+))?\)\n"
            r"%(ind)s    self\.addTagByTag\((?P=k%(i)s), (?P=v%(i)s), isPhred=False\)")
    m = _match(r"def fromTaggedBamRecord\(self, (?P<r>\w+)\):\n"
               r"    try:\n"
               r"        " + loop % {'i': '1', 'it': r"(?P=r)\.query_name(?P<s1>\.strip\(\))?", 'ind': '        '} + r"\n"
               r"    except ValueError:\n"
               r"        (?P<ih>\w+), (?P<at>\w+) = (?P=r)\.query_name(?P<s2>\.strip\(\))?\.split\((?P<is3>" + Q + r"), (?P<fmx>\d+)\)\n"
               r"        self\._parse_illumina_header\((?P=ih), indexFileParser=None, indexFileAlias=None\)\n"
               r"        " + loop % {'i': '2', 'it': r"(?P=at)", 'ind': '        '}, t, 'fromTaggedBamRecord')
    isep = set(_char(m.group(g), 'fromTaggedBamRecord') for g in ('is1', 'is2', 'is3'))
    ksep = set(_char(m.group(g), 'fromTaggedBamRecord') for g in ('ks1', 'ks2'))
    if len(isep) != 1 or len(ksep) != 1 or m.group('mx1') != m.group('mx2') or bool(m.group('s1')) != bool(m.group('s2')) \
            or m.group('ih') == m.group('at'):
        raise Untranslatable('fromTaggedBamRecord: the two loops differ')
    if int(m.group('fmx')) != 1:
        raise Untranslatable('fromTaggedBamRecord: fallback split with maxsplit %s' % m.group('fmx'))
    out['decoder'] = {'strip': bool(m.group('s1')), 'item_sep': isep.pop(), 'kv_sep': ksep.pop(),
                      'kv_maxsplit': -1 if m.group('mx1') is None else int(m.group('mx1')), 'fallback_maxsplit': 1}
    # ---- tagPysamRead
    fn, t = _fn_text(tree, 'TaggedRecord.tagPysamRead')
    FT = r"self\.tags\[(" + Q + r")\]"
    sm_call = r"self\.addTagByTag\((?P<sm%(i)s>" + Q + r"), f'(?P<f%(i)s>[^\n]*)', isPhred=False\)"
    m = _match(
        r"def tagPysamRead\(self, (?P<rd>\w+)\):\n"
        r"    (?P<mi>\w+) = ''\n"
        r"    (?P<mq>\w+) = ''\n"
        r"    (?P<tl>\w+) = \[.*\]\n"
        r"    try:\n"
        r"        (?P<qm>\w+) = False\n"
        r"        for (?P<t>\w+), (?P<q>\w+), (?P<rq>\w+) in (?P=tl):\n"
        r"            if self\.has_tag\((?P=t)\) and \(not self\.tags\.get\((?P=t)\) is None\):\n"
        r"                (?P=mi) \+= self\.tags\[(?P=t)\]\n"
        r"                if (?P=q) is None:\n"
        r"                    (?P=mq) \+= (?P<pad>" + Q + r") \* len\(self\.tags\[(?P=t)\]\)\n"
        r"                elif (?P=q) in self\.tags:\n"
        r"                    (?P=mq) \+= self\.tags\[(?P=q)\]\n"
        r"                elif (?P=q) == (?P<qt>" + Q + r"):\n"
        r"                    (?P=qm) = True\n"
        r"            if (?P=rq) and \(not self\.has_tag\((?P=t)\)\):\n"
        r"                raise NonMultiplexable\(.*\)\n"
        r"        (?P<ci>\w+) = None if not self\.has_tag\((?P<ca>" + Q + r")\) else self\.tags\[(?P=ca)\]\n"
        r"        (?P<ri>\w+) = None if not self\.has_tag\((?P<ra>" + Q + r")\) else self\.tags\[(?P=ra)\]\n"
        r"        if (?P=ci) is not None and (?P=ri) is not None:\n"
        r"            (?P<hd>\w+) = hamming_distance\((?:(?P=ri), (?P=ci)|(?P=ci), (?P=ri))\)\n"
        r"            if (?P=hd) is None:\n"
        r"                raise ValueError\(.*\)\n"
        r"            self\.addTagByTag\((?P<ah>" + Q + r"), (?P=hd), isPhred=False, cast_type=int\)\n"
        r"        self\.addTagByTag\((?P<MI>" + Q + r"), (?P=mi), isPhred=False\)\n"
        r"        if not (?P=qm):\n"
        r"            self\.addTagByTag\((?P<QM>" + Q + r"), (?P=mq), isPhred=False\)\n"
        r"    except NonMultiplexable:\n"
        r"        self\.tags\[(?P<BK>" + Q + r")\] = True\n"
        r"(?P<sm>    if .*\n(?:    (?:el|  )[^\n]*\n)*)"
        r"    for (?P<wt>\w+), (?P<wv>\w+) in self\.tags\.items\(\):\n"
        r"        if (?P=wt) in self\.tagDefinitions and self\.tagDefinitions\[(?P=wt)\]\.isPhred:\n"
        r"            (?P=wv) = fastqHeaderSafeQualitiesToPhred\((?P=wv), method=3\)\n"
        r"        (?P=rd)\.set_tag\((?P=wt), (?P=wv)\)\n"
        r"    if not (?P=qm) and (?P=rd)\.has_tag\((?P<QM2>" + Q + r")\) and \(len\((?P=rd)\.get_tag\((?P=QM2)\)\) != len\((?P=rd)\.get_tag\((?P<MI2>" + Q + r")\)\)\):\n"
        r"        raise ValueError\(.*\)", t, 'tagPysamRead')
    if m.group('QM') != m.group('QM2') or m.group('MI') != m.group('MI2') or len(_lit(m.group('pad'))) != 1:
        raise Untranslatable('tagPysamRead: molecule tags')
    out['mol'] = {'mi': _tag(m.group('MI'), 'MI'), 'qm': _tag(m.group('QM'), 'QM'), 'bk': _tag(m.group('BK'), 'BK'),
                  'pad': _lit(m.group('pad')), 'qt': _tag(m.group('qt'), 'QT')}
    out['ah'] = {'tag': _tag(m.group('ah'), 'ah'), 'raw': _tag(m.group('ra'), 'aa'), 'corrected': _tag(m.group('ca'), 'aA')}
    # the sample-name chain: the located if statement, branch by branch
    smnode = ast.parse(''.join(l[4:] + '\n' for l in m.group('sm').splitlines())).body
    if len(smnode) != 1 or not isinstance(smnode[0], ast.If):
        raise Untranslatable('tagPysamRead: sample name chain')
    recipes, node, smtag = [], smnode[0], set()
    while node is not None:
        mt = re.fullmatch(r"(%s) in self\.tags" % Q, ast.unparse(node.test))
        if not mt:
            raise Untranslatable('tagPysamRead: sample name test %s' % ast.unparse(node.test))
        guard = _tag(mt.group(1), 'sample guard')
        b = node.body
        c = b[0].value if b and isinstance(b[0], ast.Expr) else None
        if not (isinstance(c, ast.Call) and ast.unparse(c.func) == 'self.addTagByTag' and len(c.args) == 2
                and isinstance(c.args[0], ast.Constant) and isinstance(c.args[1], ast.JoinedStr)
                and [(k.arg, ast.unparse(k.value)) for k in c.keywords] == [('isPhred', 'False')]):
            raise Untranslatable('tagPysamRead: sample name branch %s' % ast.unparse(node)[:200])
        smtag.add(c.args[0].value)
        parts = []
        for v in c.args[1].values:
            if isinstance(v, ast.Constant) and isinstance(v.value, str):
                parts.append([1, v.value])
            elif isinstance(v, ast.FormattedValue) and v.conversion == -1 and v.format_spec is None \
                    and re.fullmatch(r"self\.tags\[%s\]" % Q, ast.unparse(v.value)):
                parts.append([0, _tag(ast.unparse(v.value.slice), 'sample part')])
            else:
                raise Untranslatable('tagPysamRead: sample name part %s' % ast.unparse(v))
        ren = ''
        if len(b) == 3:
            r1 = re.fullmatch(r"self\.tags\[(%s)\] = self\.tags\[(%s)\]" % (Q, Q), ast.unparse(b[1]))
            r2 = re.fullmatch(r"del self\.tags\[(%s)\]" % Q, ast.unparse(b[2]))
            if not (r1 and r2 and _lit(r1.group(2)) == guard and _lit(r2.group(1)) == guard):
                raise Untranslatable('tagPysamRead: rename statements %s' % ast.unparse(node)[:200])
            ren = _tag(r1.group(1), 'rename')
        elif len(b) != 1:
            raise Untranslatable('tagPysamRead: sample name branch has %d statements' % len(b))
        recipes.append([guard, parts, ren])
        if not node.orelse:
            node = None
        elif len(node.orelse) == 1 and isinstance(node.orelse[0], ast.If):
            node = node.orelse[0]
        else:
            raise Untranslatable('tagPysamRead: sample name chain ends in an else')
    if len(smtag) != 1:
        raise Untranslatable('tagPysamRead: sample tag')
    out['sm'] = {'tag': _tag(repr(smtag.pop()), 'SM'), 'recipes': recipes}
    # ---- QueryNameFlagger.digest
    fn, t = _fn_text(tree_tagger, 'QueryNameFlagger.digest')
    B = r"singlecellmultiomics\.modularDemultiplexer\.baseDemultiplexMethods\."
    m = _match(
        r"def digest\(self, (?P<rs>\w+)\):\n"
        r"    for (?P<r>\w+) in (?P=rs):\n"
        r"        if (?P=r) is None:\n"
        r"            continue\n"
        r"        if (?P=r)\.has_tag\((?P<done>" + Q + r")\):\n"
        r"            return\n"
        r"        if (?P=r)\.query_name\.startswith\((?P<old>" + Q + r")\):\n"
        r"            import tagBamFile\n"
        r"            tagBamFile\.recodeRead\((?P=r)\)\n"
        r"        else:\n"
        r"            (?P<tr>\w+) = " + B + r"TaggedRecord\(" + B + r"TagDefinitions\)\n"
        r"            (?P=tr)\.fromTaggedBamRecord\((?P=r)\)\n"
        r"            (?P<nh>\w+) = (?P=tr)\.asIlluminaHeader\(\)\n"
        r"            (?P=r)\.query_name = (?P=nh)\n"
        r"            (?P=tr)\.tagPysamRead\((?P=r)\)\n"
        r"            (?P<rg>\w+) = f'(?P<fmt>[^\n]*)'\n"
        r"            self\.assignedReadGroups\.add\((?P=rg)\)\n"
        r"            (?P=r)\.set_tag\((?P<RG>" + Q + r"), (?P=rg)\)", t, 'QueryNameFlagger.digest')
    js = ast.parse("f'%s'" % m.group('fmt'), mode='eval').body
    parts = []
    r = m.group('r')
    for v in js.values:
        if isinstance(v, ast.Constant) and isinstance(v.value, str):
            parts.append([1, v.value, ''])
            continue
        mm = isinstance(v, ast.FormattedValue) and v.conversion == -1 and v.format_spec is None and re.fullmatch(
            r"%s\.get_tag\((%s)\) if %s\.has_tag\((%s)\) else (%s)" % (r, Q, r, Q, Q), ast.unparse(v.value))
        if not mm or mm.group(1) != mm.group(2):
            raise Untranslatable('digest: read group part %s' % ast.unparse(v))
        parts.append([0, _tag(mm.group(1), 'read group part'), _lit(mm.group(3))])
    out['digest'] = {'done': _tag(m.group('done'), 'done'), 'old_prefix': _lit(m.group('old')), 'rg_tag': _tag(m.group('RG'), 'RG'),
                     'rg': parts}
    return out


def extract_tables(repo, regex_pattern):
    """all control-flow tables of the codec, from the two source files of the tree under check"""
    src = open(os.path.join(repo, SRC)).read()
    src2 = open(os.path.join(repo, TAGGER_SRC)).read()
    tree, tree2 = ast.parse(src), ast.parse(src2)
    forms, index = illumina_forms(tree, regex_pattern)
    tb = {'forms': forms, 'index': index}
    tb.update(raw_side(tree))
    tb.update(tagger_side(tree, tree2))
    # cross checks between the tables (roles that span functions)
    for rc in tb['sm']['recipes']:
        for kind, v in rc[1]:
            if kind == 0 and v == tb['mol']['bk']:
                raise Untranslatable('tagPysamRead: the sample name formats the boolean tag %s' % v)
        if rc[0] == tb['sm']['tag']:
            raise Untranslatable('tagPysamRead: the sample tag guards its own recipe')
    if tb['digest']['done'] != tb['sm']['tag']:
        raise Untranslatable('digest: the already-tagged test looks at %s, tagPysamRead writes the sample to %s'
                             % (tb['digest']['done'], tb['sm']['tag']))
    tb['sha256_tagger'] = hashlib.sha256(src2.encode()).hexdigest()
    return tb


def _src(x):
    kind, n, s = x
    return '(%d, (%d, %s))' % (kind, n, zstr(s))


def _assign(a):
    return '[' + '; '.join('(%s, %s)' % (zstr(k), _src(v)) for k, v in a) + ']'


def _bool(b):
    return 'true' if b else 'false'


def tables_chunks(tb):
    ch = []
    ch.append('(* ---- control-flow tables (tools/c04.py extract_tables; %s sha256 %s) ---- *)\n'
              '(* _parse_illumina_header: the forms in the order they are tried:\n'
              '   (deleted substring, (separator characters, (number of pieces, (assignments tag <- source, index source))));\n'
              '   source = (0, (i, [])) the i-th piece | (1, (0, s)) the string s | (2, (z, [])) the python int z *)\n'
              'Definition illumina_forms : list (list Z * (list Z * (Z * (list (list Z * (Z * (Z * list Z))) * (Z * (Z * list Z)))))) := [\n  %s].'
              % (TAGGER_SRC, tb['sha256_tagger'],
                 ';\n  '.join('(%s, (%s, (%d, (%s, %s))))' % (zstr(f['delete']), zstr(''.join(f['seps'])), f['n'], _assign(f['assign']),
                                                             _src(f['index'])) for f in tb['forms'])))
    ch.append('(* the tag that receives the index as written; (tag, 0 = corrected index | 1 = index identifier) when the index is known *)\n'
              'Definition index_raw_tag : list Z := %s.\nDefinition index_found_tags : list (list Z * Z) := [%s].'
              % (zstr(tb['index']['raw']), '; '.join('(%s, %d)' % (zstr(t), r) for t, r in tb['index']['found'])))
    sc = tb['scmo']
    ch.append('(* fromRawFastq / parse_scmo_header: prefix test; (strip, (characters dropped, (item separator, key/value separator))) *)\n'
              'Definition scmo_prefix : list Z := %s.\nDefinition scmo_parse : bool * (Z * (Z * Z)) := (%s, (%d, (%d, %d))).'
              % (zstr(tb['scmo_prefix']), _bool(sc['strip']), sc['drop'], ord(sc['item_sep']), ord(sc['kv_sep'])))
    td = tb['threedec']
    ch.append('(* parse_3dec_header: ((separator, (number of separators, (checked piece, its required value))), assignments) *)\n'
              'Definition threedec_form : (Z * (Z * (Z * list Z))) * list (list Z * (Z * (Z * list Z))) :=\n  ((%d, (%d, (%d, %s))), %s).'
              % (ord(td['sep']), td['nsep'], td['check'], zstr(td['value']), _assign(td['assign'])))
    d = tb['decoder']
    ch.append('(* fromTaggedBamRecord: query name stripped; maxsplit of keyValue.split (-1 = none); maxsplit of the fallback split;\n'
              '   addTagByTag(key, value, isPhred=False) stores fqSafe(value) *)\n'
              'Definition dec_strip : bool := %s.\nDefinition dec_kv_maxsplit : Z := %d.\nDefinition dec_fallback_maxsplit : Z := %d.\n'
              'Definition dec_make_safe : bool := %s.' % (_bool(d['strip']), d['kv_maxsplit'], d['fallback_maxsplit'], _bool(tb['make_safe'])))
    m = tb['mol']
    ch.append('(* tagPysamRead: padding character, the quality tag whose absence suppresses QM, the tags written *)\n'
              'Definition mol_pad : Z := %d.\nDefinition mol_qt_tag : list Z := %s.\nDefinition mi_tag : list Z := %s.\n'
              'Definition qm_tag : list Z := %s.\nDefinition bk_tag : list Z := %s.'
              % (ord(m['pad']), zstr(m['qt']), zstr(m['mi']), zstr(m['qm']), zstr(m['bk'])))
    a = tb['ah']
    ch.append('(* (hamming distance tag, (raw index tag, corrected index tag)) *)\n'
              'Definition ah_recipe : list Z * (list Z * list Z) := (%s, (%s, %s)).' % (zstr(a['tag']), zstr(a['raw']), zstr(a['corrected'])))
    ch.append('(* the sample name chain: (guard tag, (f-string parts (0, tag) | (1, literal), tag the guard tag is renamed to or [])) *)\n'
              'Definition sm_tag : list Z := %s.\nDefinition sm_recipes : list (list Z * (list (Z * list Z) * list Z)) := [\n  %s].'
              % (zstr(tb['sm']['tag']), ';\n  '.join('(%s, ([%s], %s))' % (zstr(g), '; '.join('(%d, %s)' % (k, zstr(v)) for k, v in parts), zstr(ren))
                                                        for g, parts, ren in tb['sm']['recipes'])))
    g = tb['digest']
    ch.append('(* QueryNameFlagger.digest: tag that marks a read as done, prefix of the old name format, read group tag and\n'
              '   f-string: (0, (tag, default)) | (1, (literal, [])) *)\n'
              'Definition digest_done_tag : list Z := %s.\nDefinition digest_old_prefix : list Z := %s.\nDefinition rg_tag : list Z := %s.\n'
              'Definition rg_recipe : list (Z * (list Z * list Z)) := [%s].'
              % (zstr(g['done']), zstr(g['old_prefix']), zstr(g['rg_tag']),
                 '; '.join('(%d, (%s, %s))' % (k, zstr(x), zstr(y)) for k, x, y in g['rg'])))
    return ch


def zlist(l):
    return '[' + '; '.join(str(int(x)) for x in l) + ']'


def zstr(s):
    return zlist([ord(c) for c in s])


def regen_codec():
    path = os.path.join(fw.REPO, SRC)
    src = open(path).read()
    a = extract_ast(src)
    r = fw.run_impl('impl_c04.py', {'op': 'reflect'})
    tb = extract_tables(fw.REPO, r['illumina_split_pattern'])
    a['dec_item_sep'], a['dec_kv_sep'] = ord(tb['decoder']['item_sep']), ord(tb['decoder']['kv_sep'])
    if os.path.realpath(r['module_file']) != os.path.realpath(path):
        raise Untranslatable('reflection imported %s, not %s' % (r['module_file'], path))
    for t in r['tags']:
        if len(t[0]) != 2:
            raise Untranslatable('tag %r' % t)
    sha = hashlib.sha256(src.encode()).hexdigest()
    ch = []
    ch.append('(* source: %s sha256 %s (AST: %s) + reflection on the imported package *)' % (SRC, sha, a['enc_src']))
    ch.append('Definition enc_table : list Z := %s.\nDefinition enc_lo : Z := %d.\nDefinition enc_off : Z := %d.\n'
              'Definition enc_hi : Z := %d.' % (zstr(a['enc_table']), a['enc_lo'], a['enc_off'], a['enc_hi']))
    ch.append('Definition dec_table : list Z := %s.\nDefinition dec_off : Z := %d.' % (zstr(a['dec_table']), a['dec_off']))
    ch.append('Definition header_limit : Z := %d.\nDefinition enc_item_sep : Z := %d.\nDefinition enc_kv_sep : Z := %d.\n'
              'Definition dec_item_sep : Z := %d.\nDefinition dec_kv_sep : Z := %d.\nDefinition fastq_prefix : list Z := %s.'
              % (a['header_limit'], a['enc_item_sep'], a['enc_kv_sep'], a['dec_item_sep'], a['dec_kv_sep'],
                 zlist(a['fastq_prefix'])))
    ch.append('Definition name_keys : list (list Z) := [%s].\nDefinition name_sep : Z := %d.'
              % ('; '.join(zstr(k) for k in a['name_keys']), a['name_sep']))
    ch.append('(* (tag, quality tag or [] for padding, has quality tag, required) *)\n'
              'Definition mol_tags : list (list Z * (list Z * (bool * bool))) := [%s].'
              % '; '.join('(%s, (%s, (%s, %s)))' % (zstr(t[0]), zstr(t[1] or ''), 'true' if t[1] is not None else 'false',
                                                  'true' if t[2] else 'false') for t in a['mol_tags']))
    ch.append('(* code points that survive fqSafe (reflection on the function over all 0x110000 code points; '
              'fastqCleanerRegex %r flags %d), as closed ranges *)\n'
              'Definition fqsafe_ranges : list (Z * Z) := [%s].'
              % (r['fqsafe_pattern'], r['fqsafe_flags'], '; '.join('(%d, %d)' % (lo, hi) for lo, hi in r['fqsafe_ranges'])))
    ch.append('(* code points c with chr(c).isspace() (what str.strip() removes) *)\n'
              'Definition py_space : list Z := %s.' % zlist(r['spaces']))
    ch.append('(* TagDefinitions: (tag, (isPhred, doNotWrite)), dictionary order *)\n'
              'Definition tag_table : list (list Z * (bool * bool)) := [\n  %s].'
              % ';\n  '.join('(%s, (%s, %s))' % (zstr(t[0]), 'true' if t[1] else 'false', 'true' if t[2] else 'false')
                             for t in r['tags']))
    ch += tables_chunks(tb)
    enc_tags, plain_tags = scan_written_tags(fw.REPO)
    ch.append('(* tags the demultiplexer modules write phred-encoded / plainly (AST scan of modularDemultiplexer) *)\n'
              'Definition encoded_tags : list (list Z) := [%s].\nDefinition plain_tags : list (list Z) := [%s].'
              % ('; '.join(zstr(k) for k in enc_tags), '; '.join(zstr(k) for k in plain_tags)))
    header = '(* GENERATED by tools/c04.py (regen_codec) from the tree under check on every run. Do not edit. *)\n' \
             'From Coq Require Import ZArith List Bool.\nImport ListNotations.\nOpen Scope Z_scope.\n'
    text = header + '\n' + '\n\n'.join(ch) + '\n'
    gp = os.path.join(fw.COQ, 'Gen', 'GenCodec.v')
    old = open(gp).read() if os.path.exists(gp) else None
    if old != text:
        with open(gp, 'w') as f:
            f.write(text)
    meta = {'source': SRC, 'sha256': sha, 'coq': 'Gen/GenCodec.v',
            'constants': {k: a[k] for k in ('enc_lo', 'enc_off', 'enc_hi', 'dec_off', 'header_limit', 'enc_item_sep',
                                            'enc_kv_sep', 'dec_item_sep', 'dec_kv_sep', 'name_keys', 'mol_tags')},
            'tags': len(r['tags']), 'fqsafe_ranges': r['fqsafe_ranges'], 'encoded_tags': enc_tags, 'plain_tags': plain_tags,
            'tables': {k: tb[k] for k in ('forms', 'index', 'scmo_prefix', 'scmo', 'threedec', 'decoder', 'make_safe', 'mol', 'ah',
                                          'sm', 'digest')},
            'sha256_tagger': tb['sha256_tagger']}
    a['tables'] = tb
    return [meta], a, r


# ============================================================================ K
SAFE = _string.ascii_letters + _string.digits + '-_'
ERR = {1: 'KeyError', 2: 'ValueError', 3: 'HeaderTooLong', 4: 'NonMultiplexable', 5: 'ImportError', 6: 'TypeError',
       7: 'IndexError', 8: 'AssertionError'}


def err_class(msg):
    t = msg.split(':')[0]
    if t == 'ValueError' and 'length of the demultiplexed header' in msg:
        return 'HeaderTooLong'
    if t in ('ModuleNotFoundError', 'ImportError'):
        return 'ImportError'
    return t


def S(s):
    return [ord(c) for c in s]


def U(codes):
    return ''.join(chr(c) for c in codes)


def m_res(v, f=lambda x: x):
    """model result -> ('ok', value) | ('err', class)"""
    if v[0] == 0:
        return ('ok', f(v[1]))
    return ('err', ERR.get(v[1], '?%r' % v[1]))


def m_tags(tl):
    return sorted([U(k), 's' if tv[0] == 0 else 'i', U(tv[1]) if tv[0] == 0 else str(tv[1])] for k, tv in tl)


def m_read(x):
    return {'name': U(x[0]), 'tags': m_tags(x[1])}


def store_in(store):
    """[[k, type, printable]] -> model store (values as python prints them in an f-string)"""
    return [[S(k), S(v)] for k, t, v in store]


def oracle_in(o):
    return [] if o is None else [[[S(t), ([] if r is None else [S(r[0]), S(r[1])])] for t, r in o]]


def opt_in(s):
    return [] if s is None else [S(s)]


def py_coords_of(h, spaces=None):
    """direct transcription of Model/C04.v coords_of: the coordinates of a header that has an Illumina shape, else None"""
    sp = spaces if spaces is not None else PY_SPACES
    def field_ok(f):
        return len(f) > 0 and all(ch in SAFE for ch in f)
    def sepfree(v):
        return not any(ch in ';:' or ch in sp for ch in v)
    if not h.startswith('@'):
        return None
    r = h[1:]
    c, t = (r.split(' ', 1) + [None])[:2] if ' ' in r else (r, None)
    fs = c.split(':')
    if len(fs) != 7 or not all(field_ok(f) for f in fs):
        return None
    if t is not None:
        ps = t.split(':')
        if len(ps) == 3:
            ok = all(field_ok(x) for x in ps)
        elif len(ps) == 4:
            ok = all(field_ok(x) for x in ps[:3]) and sepfree(ps[3])
        elif len(ps) == 5:
            ok = all(field_ok(x) for x in ps[:3]) and ps[3] == '' and ps[4] == ''
        else:
            ok = False
        if not ok:
            return None
    return c


PY_SPACES = ''.join(chr(c) for c in range(0x110000) if chr(c).isspace())


class Prop(fw.PropBase):
    ID = 'C04'
    PROPS = 'Props/C04.v'
    TRUSTED = [
        'tools/c04.py regen_codec / extract_tables: AST pattern extraction (clamp expression, length test, separators, name '
        'format, molecule-identifier recipe) and reflection (tag table, fqSafe class, ascii_letters, str.isspace), plus the '
        'CONTROL-FLOW TABLES: per header form of _parse_illumina_header the deleted substring / separator set / number of '
        'pieces / which piece or constant goes to which tag / index source, the index tags, fromRawFastq prefix test, scmo and '
        '3-DEC parsers, the flags of fromTaggedBamRecord (strip, maxsplit, fqSafe on store, fallback split), ah / MI / QM / BK '
        'tags and padding, the sample-name chain, the read-group recipe, the guards of digest.  Each function is matched '
        'against a template of its normalised source in which the data are named groups and the roles are back-references; '
        'it fails closed when the source leaves the recognised shape (then the pinned tables + K with extra passes take over)',
        'modelled not verified: the INTERPRETERS of these tables (Model/C04x.v: split at a character set, str.replace(x, ""), '
        'dict.update order, the try/except nesting as "first form whose unpacking succeeds", the if/elif chain as "first recipe '
        'whose guard is present", f-string evaluation) are hand-written Gallina tied by K; python str.split/join/strip/format '
        'semantics; the aligner copying the FASTQ name (minus "@") into the BAM query name; pysam set_tag/get_tags typing '
        '(str -> Z, int/bool -> integer); BAM query-name capacity 254 (pysam 0.24.1 / htslib) is a stated constant',
        'index-sequence lookup and the int() test of _parse_illumina_header are an oracle input of the model (C03); '
        'which tags a strategy adds is input (C02): the theorems quantify over every tag store',
        'search() evaluates python transcriptions of the statements (coords_of is cross-checked against the Coq specb, '
        'run_C04 mode 2/3, on every query name of every run)',
    ]
    ASSUMPTIONS = [
        'tag values contain no ";" ":" or whitespace (they may contain other unsafe characters, which the decoder '
        'deletes: decoded value = fqSafe(value)); values over the header-safe alphabet [A-Za-z0-9_-] come back unchanged, and '
        'ONLY those do (C04_field_exact_iff)',
        'the "+" of dual sequencing indices is outside the header-safe alphabet and is deleted on decode (D7, '
        'C04_dual_index_refuted: the coordinates come back, aa comes back without its "+")',
        'the coordinates clause is for headers of an Illumina SHAPE (coords_of: "@" + 7 non-empty header-safe fields joined by '
        '":", then nothing | " RP:Fi:CN" | " RP:Fi:CN::" | " RP:Fi:CN:index"); the parser itself accepts by counting separators '
        '(C04_header_accept_iff), so other headers with 10 / 9 / 6 separators are accepted and assigned by position '
        '(C04_accepted_by_count_refuted, C04_comment_in_coordinate_refuted, C04_short_header_misassigned_refuted), all others '
        'are refused with ValueError (C04_malformed_header_raises)',
        'the tag store is a python dict (unique keys) whose keys are defined in tags/tags.py',
    ]

    def regen(self):
        meta, self.ast_consts, self.reflected = regen_codec()
        return meta

    # ---------------------------------------------------------------- generators
    def rstr(self, alphabet, lo, hi):
        return ''.join(self.rng.choice(alphabet) for _ in range(self.rng.randint(lo, hi)))

    def gen_phred(self):
        rng = self.rng
        cases = [chr(c) for c in range(0, 300)] + [chr(c) for c in (0x2028, 0x10ffff, 0x3000)]
        cases += [''.join(chr(c) for c in range(33, 127)), '']
        n = 150 if self.tier == 'quick' else 8000
        for _ in range(n):
            cases.append(''.join(chr(rng.randint(33, 126)) for _ in range(rng.randint(1, 20))))
        for _ in range(n // 5):
            cases.append(''.join(chr(rng.choice([rng.randint(0, 140), rng.randint(80, 90), 84, 85, 33, 32])) for _ in range(rng.randint(1, 8))))
        return cases

    def gen_fqsafe(self):
        rng = self.rng
        cases = [chr(c) for c in range(0, 400)] + ['', 'ACGT+TTGA', '@NS500:1', 'a b\tc', 'xéy中z', '\ud800a']
        n = 200 if self.tier == 'quick' else 10000
        pool = SAFE + ' ;:@+.,/|\t\n~^' + 'éßЖ中\U0001F600'
        for _ in range(n):
            cases.append(self.rstr(pool, 0, 24))
        return cases

    HEADERS = [
        '@NS500414:628:H7YVNBGXC:1:11101:15963:1046 1:N:0:GTGAAA',        # form 1, index sequence
        '@NS500414:628:H7YVNBGXC:1:11101:15963:1046 2:Y:18:12',           # form 1, numeric index
        '@NS500414:628:H7YVNBGXC:1:11101:15963:1046 1:N:0:GTGAAA+CCTTAA',  # form 1, dual index (D7)
        '@NS500414:628:H7YVNBGXC:1:11101:15963:1046 1:N:0:01',             # form 1, numeric index with a leading zero
        '@NS500414:628:H7YVNBGXC:1:11101:15963:1046 2:N:0:007',
        '@NS500413:32:H14TKBGXX:2:11101:16448:1664 1:N:0::',               # form 2
        '@NS500413:32:H14TKBGXX:2:11101:16448:1664 1:N:0',                 # form 2 without the trailing ::
        '@M0-1_x:7:000000000-ABCDE:1:1101:2:3',                            # form 3
        '@Cluster_s_1_1101_2',                                             # 3-DEC
        '@Cluster_x_1_1101_2', '@Clus_ter_s_1_1101_2', '@nothing', '', '@a:b:c:d:e:f',
        '@Is:NS500414;RN:628;Fc:H7YVNBGXC;La:1;Ti:11101;CX:15963;CY:1046;Fi:N;CN:0;aa:GTGAAA;aA:GTGAAA;aI:19;LY:LIB;'
        'RX:ATC;RQ:GGG;bi:1;bc:ACACACTA;MX:NLAIII384C8U3;BC:ACACACTA',     # already demultiplexed
        '@Is:NS500414;RN:628;broken', '@Is:a:b;RN:1',
    ]

    def rand_header(self):
        rng = self.rng
        f = [self.rstr(SAFE, 1, 10) for _ in range(3)] + [str(rng.randint(1, 8)), str(rng.randint(1101, 21612)),
                                                         str(rng.randint(1, 30000)), str(rng.randint(1, 30000))]
        idx = rng.choice(['GTGAAA', 'GTGAAA', 'CGATGT', 'TTAGGC', 'GTGAAA', '0', '42', 'ACGT+TTGA', 'N', 'GTGAAT', 'CGATGT', '01', '007',
                          '00', '1'])
        form = rng.choice([1, 1, 1, 2, 3, 4])
        base = '@' + ':'.join(f)
        if form == 1:
            return base + ' %d:%s:%d:%s' % (rng.randint(1, 2), rng.choice('NY'), rng.choice([0, 2, 18]), idx)
        if form == 2:
            return base + ' %d:%s:%d%s' % (rng.randint(1, 2), rng.choice('NY'), rng.choice([0, 2]), rng.choice(['::', '']))
        if form == 3:
            return base
        return '@Cluster_s_%d_%d_%d' % (rng.randint(1, 8), rng.randint(1101, 2000), rng.randint(1, 2))

    def gen_raw(self):
        rng = self.rng
        cases = []
        for h in self.HEADERS:
            for parser in (True, False):
                cases.append({'f': 'raw', 'header': h, 'parser': parser, 'library': 'LIB_a-1', 'reason': None})
        for lib in ('', 'x', None):
            cases.append({'f': 'raw', 'header': self.HEADERS[0], 'parser': True, 'library': lib, 'reason': None})
        n = 60 if self.tier == 'quick' else 4000
        for _ in range(n):
            h = self.rand_header()
            if rng.random() < 0.15:   # damage it
                i = rng.randint(0, len(h))
                h = h[:i] + rng.choice([':', ' ', '_', ';', '::', '']) + h[i + rng.randint(0, 1):]
            cases.append({'f': 'raw', 'header': h, 'parser': rng.random() < 0.7,
                          'library': rng.choice([None, 'LIB', self.rstr(SAFE, 1, 30), '', self.rstr(SAFE, 1, 1)]),
                          'reason': rng.choice([None, None, 'bc_not_matching'])})
        return cases

    def gen_header_forms(self):
        """headers with fewer / more fields than any form expects, blanks and '::' in every position, 3-DEC and scmo
        look-alikes, dual indices: raw header -> TaggedRecord -> asFastq -> digest without a strategy"""
        rng = self.rng
        toks = ['NS500414', '628', 'H7YVNBGXC', '1', '11101', '15963', '1046', '1', 'N', '0', 'GTGAAA', 'x', 'y', 'z']
        hs = []
        for n in range(1, 14):                         # n fields, the blank at every position (or nowhere)
            for p in [None] + list(range(1, n)):
                seps = [':'] * (n - 1)
                if p is not None:
                    seps[p - 1] = ' '
                h = '@' + ''.join(t + x for t, x in zip(toks[:n], seps + ['']))
                hs.append(h)
                if p in (None, 7):
                    hs += [h + '::', h + ':', h + ' extra', h + ':ACGT+TTGA']
        base = '@' + ':'.join(toks[:7])
        for i in range(1, 7):                          # "::" / an empty field / a doubled blank inside the coordinates
            f = toks[:7]
            hs.append('@' + ':'.join(f[:i]) + '::' + ':'.join(f[i:]) + ' 1:N:0')
            hs.append('@' + ':'.join(f[:i] + [''] + f[i:]) + ' 1:N:0:GTGAAA')
            hs.append('@' + ':'.join(f[:i]) + ' ' + ':'.join(f[i:]) + ' 1:N:0:GTGAAA')
        for idx in ('ACGT+TTGA', 'GTGAAA+GTGAAA', '+', 'AC+', 'N', '', '12', '007', 'GTG.AA', 'GTGAAA ', 'GT;GA'):
            hs.append(base + ' 1:N:0:' + idx)
        for k in range(2, 7):                          # 3-DEC look-alikes: k underscores, the 's' in or out of place
            hs.append('@Cluster' + ''.join('_%s' % t for t in (['s', '1', '1101', '2', 'x', 'y'][:k])))
            hs.append('@Cluster' + ''.join('_%s' % t for t in (['x', '1', '1101', '2', 'x', 'y'][:k])))
        hs += ['@Is:a;RN:b', '@Is:a;RN', '@Is:a;RN:b:c', '@Is', '@Is:', '@Is:a;;RN:b', ' @Is:a;RN:b ', '@Isx_s_1_2_3', '@', '',
               '@SRR001666.1 071112_SLXA-EAS1_s_7:5:1:817:345 length=36', '@HWUSI-EAS100R:6:73:941:1973#0/1',
               base + ' 1:N:0:GTGAAA extra', base + '  1:N:0:GTGAAA', base + ' 1:N:0::', base + ' 1:N:0:::', base + '::',
               '@NS500414:628:H7YVNBGXC:1:11101:15963 1:N:0:ACGT']
        for _ in range(40 if self.tier == 'quick' else 3000):      # random field counts and separator strings
            n = rng.randint(1, 13)
            h = '@'
            for i in range(n):
                h += self.rstr(SAFE + ('+.' if rng.random() < 0.1 else ''), 0 if rng.random() < 0.05 else 1, 6)
                if i < n - 1:
                    h += rng.choice([':', ':', ':', ':', ' ', '::', '_', ': '])
            hs.append(h + rng.choice(['', '', '', '::', ':', ' ']))
        cases, seen = [], set()
        for h in hs:
            for parser in (False, True):
                if (h, parser) not in seen:
                    seen.add((h, parser))
                    cases.append({'f': 'rawchain', 'header': h, 'parser': parser, 'library': rng.choice(['LIB', 'L-1_x', 'LIB'])})
        return cases

    def gen_malformed_names(self):
        """query names with an item that is not key:value at every position, and Illumina-like first items of every length"""
        base = 'Is:NS500414;RN:628;Fc:H7YVNBGXC;La:1;Ti:11101;CX:15963;CY:1046;Fi:N;CN:0;aa:GTGAAA;aA:GTGAAA;aI:19;LY:LIB;' \
               'RX:ATC;RQ:GGG;bi:1;bc:ACACACTA;MX:NLAIII384C8U3;BC:ACACACTA'
        items = base.split(';')
        names = []
        for i in range(len(items)):
            for mut in (lambda x: x.replace(':', ''), lambda x: x + ':z', lambda x: '', lambda x: x + ';', lambda x: ':' + x,
                        lambda x: x.split(':')[0] + ':'):
                it = list(items)
                it[i] = mut(it[i])
                names.append(';'.join(it))
        toks = ['NB500', '530', 'HXX', '2', '2', '17', '6', '1', 'N', '0', 'ACGT', 'x', 'y']
        for n in range(1, 14):
            for sp in (None, 7):
                seps = [':'] * (n - 1)
                if sp is not None and sp <= n - 1:
                    seps[sp - 1] = ' '
                ih = ''.join(t + x for t, x in zip(toks[:n], seps + ['']))
                names += [ih + ';BC:GTCATTAG;RX:CTGAAC;LY:L;bi:3', ih + ';BC:GTCATTAG;broken', ih]
        return [{'f': 'digest', 'reads': [[n[:254] if n.strip() else 'x', []]]} for n in names]

    def gen_encode(self):
        """synthetic tag stores: keys from the tag table (sometimes undefined), values over several alphabets,
        total length steered to 245..262 for a share of them"""
        rng = self.rng
        keys = [t[0] for t in self.reflected['tags']]
        cases = []
        n = 150 if self.tier == 'quick' else 8000
        for i in range(n):
            ks = rng.sample(keys, rng.randint(1, 14))
            if rng.random() < 0.5:
                ks = ['Is', 'RN', 'Fc', 'La', 'Ti', 'CX', 'CY', 'RP'] + [k for k in ks if k not in ('Is', 'RN', 'Fc', 'La', 'Ti', 'CX', 'CY', 'RP')]
            if rng.random() < 0.05:
                ks.insert(rng.randint(0, len(ks)), rng.choice(['zz', 'Q9', 'xyz']))
            mode = rng.random()
            alpha = SAFE if mode < 0.6 else (SAFE + '@+.' if mode < 0.8 else SAFE + '@+.;: \t')
            store = []
            for k in ks:
                t = 's'
                v = self.rstr(alpha, 0, 12)
                if rng.random() < 0.1:
                    t, v = 'i', str(rng.randint(-5, 400))
                store.append([k, t, v])
            if rng.random() < 0.45:    # steer the header length to the limit
                target = rng.randint(245, 262)
                cur = sum(len(k) + 1 + len(v) for k, t, v in store if k != 'RP') + len([1 for k, t, v in store if k != 'RP']) - 1
                j = rng.randrange(len(store))
                if store[j][0] == 'RP':
                    j = (j + 1) % len(store)
                if store[j][1] == 's' and target > cur and store[j][0] != 'RP':
                    store[j][2] += self.rstr(SAFE, target - cur, target - cur)
            cases.append({'f': 'encode', 'store': store})
        return cases

    def gen_chain(self):
        rng = self.rng
        info = self.strategy_info
        cases = []
        per = 3 if self.tier == 'quick' else 120
        for name, si in sorted(info.items()):
            forced = {'CUSTOM_U0BC3': [{'second': 'ILLU'}, {'header': self.HEADERS[6]}, {'library': ''}],
                      'CUSTOM_BC0U8': [{'second': 'SCARC8R2'}, {'header': self.HEADERS[7], 'library': 'x'}],
                      'NLAIII384C8U3': [{'second': 'ILLU', 'library': ''}],
                      'ILLU': [{'library': ''}, {'header': self.HEADERS[6]}]}.get(name, [])
            for rep, force in enumerate([None] * per + forced):
                n = 2 if not si['single'] else 1
                seqs = [self.rstr('ACGT', 70, 110) for _ in range(n)]
                if rng.random() < 0.15:
                    seqs = [s[:40] + s[40:].replace('A', 'N', 1) for s in seqs]
                hd1 = bool(si['barcodes']) and rng.random() < 0.25 and not force
                if si['barcodes']:
                    bc = rng.choice(si['barcodes'])
                    if hd1:      # one sequencing error in the cell barcode, corrected by the -hd 1 expansion
                        i = rng.randrange(len(bc))
                        bc = bc[:i] + rng.choice([x for x in 'ACGT' if x != bc[i]]) + bc[i + 1:]
                    pos = 0
                    for r, st, ln in si['slices']:
                        if r < n:
                            seqs[r] = seqs[r][:st] + bc[pos:pos + ln] + seqs[r][st + ln:]
                        pos += ln
                qmode = rng.random()
                quals = []
                for s in seqs:
                    if qmode < 0.4:
                        q = ''.join(chr(rng.randint(33, 126)) for _ in s)
                    elif qmode < 0.7:
                        q = ''.join(chr(rng.randint(33, 84)) for _ in s)
                    else:
                        q = ''.join(rng.choice('#/6<AEFIJ') for _ in s)
                    quals.append(q)
                hmode = rng.random()
                if hmode < 0.35:
                    h = rng.choice(self.HEADERS[:8])
                else:
                    h = self.rand_header()
                if force and 'header' in force:
                    h = force['header']
                elif rep == 0:
                    h = self.HEADERS[0]
                hs = [h, h.replace(' 1:', ' 2:', 1)][:n]
                lib = rng.choice(['LIB', 'APKS1-P15-1-1_1', self.rstr(SAFE, 1, 40), '', self.rstr(SAFE, 1, 1)])
                if force and 'library' in force:
                    lib = force['library']
                nf = len(re.split('[: ]', h.replace('::', '')))
                c = {'f': 'chain', 'strategy': name, 'parser': rng.random() < (0.85 if nf == 11 else 0.15), 'library': lib,
                     'records': [[hs[i], seqs[i], '+', quals[i]] for i in range(n)]}
                if hd1:
                    c['ctx'], c['parser'] = 'hd1', True
                if force:
                    c['parser'] = True
                if si.get('plain') and si.get('umi') and n == 2 and (rng.random() < 0.3 if not force else bool(force.get('second'))):
                    # second pass with a strategy that does not extract a UMI: the bulk strategy, or scartrace R2
                    # (its barcode put at the start of the untouched mate)
                    c['second'] = force['second'] if force else rng.choice(['ILLU', 'SCARC8R2'])
                    s2 = info.get('SCARC8R2')
                    if c['second'] == 'SCARC8R2' and s2 and s2['barcodes'] and si['slices'] and all(x[0] == 0 for x in si['slices']) \
                            and si['umi'][0] == 0:
                        b2 = rng.choice(s2['barcodes'])
                        c['records'][1][1] = b2 + c['records'][1][1][len(b2):]
                    else:
                        c['second'] = 'ILLU'
                if rng.random() < 0.3 and not force:     # long library names: first header of exactly 248..258 characters
                    c['target_len'] = rng.randint(248, 258)
                cases.append(c)
        return cases

    def gen_digest(self, real_headers):
        """query names for the tagger: real demultiplexed headers, mutations of them and hand-made forms"""
        rng = self.rng
        base = 'Is:NS500414;RN:628;Fc:H7YVNBGXC;La:1;Ti:11101;CX:15963;CY:1046;Fi:N;CN:0;aa:GTGAAA;aA:GTGAAT;aI:19;LY:LIB;' \
               'RX:ATC;RQ:GGG;bi:1;bc:ACACACTA;MX:NLAIII384C8U3;BC:ACACACTA'
        hand = [
            base, base.replace('bi:1', 'BI:7'), base.replace(';bi:1', ''), base.replace(';LY:LIB', ''),
            base.replace(';aA:GTGAAT', ''), base.replace(';aa:GTGAAA', ''), base + ';QT:GGGGGGGG', base + ';QT:GGG',
            base.replace(';BC:ACACACTA', ''), base.replace(';BC:ACACACTA', '').replace(';RQ:GGG', ''),
            base.replace('RQ:GGG', 'RQ:G1G'), base.replace('RQ:GGG', 'RQ:'), base.replace('RX:ATC', 'RX:'),
            base + ';QM:abc', base + ';MI:zzz', base + ';SM:old', base + ';ah:7', base + ';BK:x', base + ';RG:x',
            base.replace('Is:NS500414;', ''), base.replace('CY:1046;', ''), 'UMI:ACG;' + base, ' ' + base + '\t', base + ';',
            ';' + base, base.replace('La:1', 'La:1:2'), base.replace(';RN:628', ';RN'), base + ';LY:SECOND', base + ';lq:GG;lh:TC',
            base.replace('aa:GTGAAA', 'aa:ACGT+TTGA').replace('aA:GTGAAT', 'aA:ACGT+TTGA'),
            base.replace('LY:LIB', 'LY:li b.x@y'), base + ';XYZ:1', base + ';Q:1', 'x', 'a:b', 'Is:1',
            # "Single Cell Discoveries" form
            'NB500:530:HXX:2:2:17:6;SS:GTCATTAG;CB:GTCATTAG;QT:eeeeeeee;RX:CTGAAC;RQ:aaaaae;SM:SAMPLE_NAME',
            'NB500:530:HXX:2:2:17:6;SS:GTCATTAG;BC:GTCATTAG;RX:CTGAAC;RQ:aaaaae;LY:L;bi:3',
            'NB500:530:HXX:2:2:17:6 1:N:0:ACGT;BC:GTCATTAG;RX:CTGAAC;LY:L;bi:3',
            'NB500:530:HXX:2:2:17:6;BC:GTCATTAG;broken', 'NB500:530:HXX:2:2:17;BC:GTCATTAG',
            'LY:a;NB500:530:HXX:2:2:17:6;BC:GTCATTAG',
        ]
        cases = [{'f': 'digest', 'reads': [[h, []]]} for h in hand]
        n = 120 if self.tier == 'quick' else 8000
        pool = list(real_headers) or [base]
        for _ in range(n):
            h = rng.choice(pool + [base])
            items = h.split(';')
            m = rng.random()
            if m < 0.25 and len(items) > 1:
                del items[rng.randrange(len(items))]
            elif m < 0.4:
                rng.shuffle(items)
            elif m < 0.55:
                i = rng.randrange(len(items))
                items[i] = items[i] + rng.choice(['@', '+X', ' ', ':', '.', 'Z', '9'])
            elif m < 0.65:
                items.insert(rng.randrange(len(items) + 1), rng.choice(['QT:GGGGGGGG', 'QT:' + 'G' * rng.randint(0, 12), 'BI:12', 'SM:x', 'lq:G!G',
                                                                         'RQ:' + self.rstr(_string.ascii_letters, 0, 6), 'aA:ACGTNN', 'aa:ACNTNA']))
            elif m < 0.7:
                items = [it for it in items if not it.startswith(rng.choice(['aA', 'LY', 'bi', 'BC', 'RX', 'RQ', 'Is']))]
            h2 = ';'.join(items)
            if rng.random() < 0.05:
                h2 = rng.choice([' ', '\t', '']) + h2 + rng.choice([' ', '\n', ''])
            cases.append({'f': 'digest', 'reads': [[h2[:254] if h2.strip() else 'x', []]]})
        # list level: pairs, None entries, an already tagged read, a failing read
        for _ in range(20 if self.tier == 'quick' else 200):
            rs = []
            for i in range(rng.randint(1, 3)):
                r = rng.random()
                if r < 0.15:
                    rs.append(None)
                elif r < 0.3:
                    rs.append([rng.choice(pool + [base]), [['SM', 'already']]])
                elif r < 0.4:
                    rs.append(['broken', []])
                else:
                    rs.append([rng.choice(pool + [base]), rng.choice([[], [], [['NM', 2], ['MD', '4'], ['AS', 70]]])])
            cases.append({'f': 'digest', 'reads': rs})
        return cases

    def gen_history(self, real_headers):
        """sequences of digest calls on ONE flagger: reads of different strategies (with / without UMI, ligation tags,
        bulk, other tag sets), pairs and single reads, now and then a failing or an already tagged read"""
        rng = self.rng
        base = 'Is:NS500414;RN:628;Fc:H7YVNBGXC;La:1;Ti:11101;CX:15963;CY:1046;Fi:N;CN:0;aa:GTGAAA;aA:GTGAAA;aI:19;LY:LIB'
        hand = [base + ';RX:ATCAAG;RQ:GGGGGG;bi:7;bc:ACACACTA;MX:CS2C8U6;BC:ACACACTA;rS:TTGACC',      # UMI + random primer
                base + ';bi:12;bc:CCAGGATA;MX:SCARC8R2;BC:CCAGGATA',                                 # no UMI
                base,                                                                                # bulk (ILLU)
                base + ';RX:GTT;RQ:GGG;bi:296;bc:ACTCCTTA;MX:scCHIC384C8U3;BC:ACTCCTTA;lh:TC;lq:GG',   # ligation tags
                base.replace(';aA:GTGAAA;aI:19', '') + ';RX:CCA;RQ:LLP;BI:24;bc:GCTTAACC;MX:OLD;BC:GCTTAACC',  # no index, BI
                base + ';RX:GATACGCG;RQ:GGGGGGGG;bi:261;bc:CAGCAACT;BC:CAGCAACT;QT:GGGGGGGG;ES:TTA;eq:GGG;MX:RBSN']
        pool = hand + list(real_headers)
        cases = [{'f': 'history', 'calls': [[[hand[0], []], [hand[0], []]], [[hand[1], []], [hand[1], []]], [[hand[2], []]],
                                            [[hand[3], []]], [[hand[1], []]], [[hand[4], []]], [[hand[5], []]], [[hand[2], []]]]}]
        for _ in range(25 if self.tier == 'quick' else 600):
            calls = []
            for k in range(rng.randint(2, 6)):
                h = rng.choice(hand) if rng.random() < 0.4 else rng.choice(pool)
                r = rng.random()
                if r < 0.06:
                    calls.append([['broken', []]])
                elif r < 0.12:
                    calls.append([[h, [['SM', 'already']]]])
                elif r < 0.6:
                    calls.append([[h, []], [h, []]])
                else:
                    calls.append([[h, rng.choice([[], [['NM', 1]]])]])
            cases.append({'f': 'history', 'calls': calls})
        return cases

    # ---------------------------------------------------------------- K driver
    def load_corpus(self):
        d = os.path.join(fw.VERIF, 'corpus', 'C04')
        out = []
        if os.path.isdir(d):
            for f in sorted(os.listdir(d)):
                if f.endswith('.json'):
                    c = json.load(open(os.path.join(d, f)))
                    out += c if isinstance(c, list) else [c]
        return out

    def build_cases(self):
        if not hasattr(self, 'reflected'):
            self.reflected = fw.run_impl('impl_c04.py', {'op': 'reflect'})
        self.strategy_info = fw.run_impl('impl_c04.py', {'op': 'strategies'})
        cases = list(self.load_corpus())
        self.n_corpus = len(cases)
        ph = self.gen_phred()
        cases += [{'f': 'phred_enc', 's': s} for s in ph]
        cases += [{'f': 'phred_enc_tag', 's': s} for s in ph[300:360]]
        letters = _string.ascii_letters
        dec = [letters, '', 'o', 'Z', 'a'] + [chr(c) for c in range(32, 128)]
        for _ in range(100 if self.tier == 'quick' else 2000):
            dec.append(self.rstr(letters + ('1_ ' if self.rng.random() < 0.2 else ''), 0, 16))
        cases += [{'f': 'phred_dec', 's': s} for s in dec]
        cases += [{'f': 'fqsafe', 's': s} for s in self.gen_fqsafe()]
        cases += self.gen_raw()
        cases += self.gen_header_forms()
        cases += self.gen_encode()
        cases += self.gen_chain()
        return cases

    def done_tag(self):
        """the tag whose presence makes digest return (regenerated: digest_done_tag); 'SM' when the translator refused"""
        return ((getattr(self, 'ast_consts', None) or {}).get('tables') or {}).get('digest', {}).get('done', 'SM')

    def model_inputs(self, cases, impl):
        """one model query per case (list of (case index, mode-0 input, kind))"""
        q = []
        for i, c in enumerate(cases):
            f = c['f']
            if f in ('phred_enc', 'phred_enc_tag'):
                q.append((i, [0, S(c['s'])], f))
            elif f == 'phred_dec':
                q.append((i, [1, S(c['s'])], f))
            elif f == 'fqsafe':
                q.append((i, [2, S(c['s'])], f))
            elif f == 'encode':
                q.append((i, [3, store_in(c['store'])], f))
            elif f == 'raw':
                orc = impl[i].get('oracle') if c.get('parser') else None
                q.append((i, [5, S(c['header']), oracle_in(orc) if c.get('parser') else [], opt_in(c.get('library')),
                              opt_in(c.get('reason'))], f))
            elif f == 'rawchain':
                if 'skip' in impl[i]:
                    continue
                orc = impl[i].get('oracle') if c.get('parser') else None
                q.append((i, [11, S(c['header']), oracle_in(orc) if c.get('parser') else [], opt_in(c.get('library'))], f))
                q.append((i, [10, S(c['header'])], 'form'))
            elif f == 'digest':
                q.append((i, [9, [([] if r is None else [S(r[0]), 1 if any(k == self.done_tag() for k, v in r[1]) else 0])
                                  for r in c['reads']]], f))
            elif f == 'history':
                for j, call in enumerate(c['calls']):
                    q.append((i, [9, [([] if r is None else [S(r[0]), 1 if any(k == self.done_tag() for k, v in r[1]) else 0])
                                      for r in call]], 'call:%d' % j))
            elif f == 'chain':
                r = impl[i]
                for j, st in enumerate(r.get('stores') or []):
                    if st is not None:
                        q.append((i, [6, store_in(st)], 'chain:%d' % j))
                        q.append((i, [1, store_in(st)], 'pre:%d' % j))
        return q

    def compare(self, c, kind, impl, mv):
        """None when model and implementation agree, else a short description"""
        f = c['f']
        if f in ('phred_enc', 'phred_enc_tag', 'phred_dec'):
            a = ('err', err_class(impl['error'])) if 'error' in impl else ('ok', impl['out'])
            b = m_res(mv, U)
        elif f == 'fqsafe':
            a = ('err', err_class(impl['error'])) if 'error' in impl else ('ok', impl['out'])
            b = ('ok', U(mv))
        elif f == 'encode':
            a = ('err', err_class(impl['error'])) if 'error' in impl else ('ok', impl['header'])
            b = m_res(mv, U)
        elif f == 'raw':
            a = ('err', err_class(impl['error'])) if 'error' in impl else ('ok', [[k, v] for k, t, v in impl['store']])
            b = m_res(mv, lambda st: [[U(k), U(v)] for k, v in st])
        elif f == 'rawchain':
            if kind == 'form':
                return None
            a = ('err', err_class(impl['error'])) if 'error' in impl else ('ok', impl['read'])
            b = m_res(mv, m_read)
        elif f in ('digest', 'history'):
            if 'error' in impl:
                return 'harness error %s' % impl['error']
            if f == 'history':       # the model has no state: every call is judged on its own
                j = int(kind.split(':')[1])
                c, impl = {'reads': c['calls'][j]}, impl['calls'][j]
            outs, e = mv
            b_e = ERR.get(e[0]) if e else None
            a_e = err_class(impl['raised']) if impl['raised'] else None
            if a_e != b_e:
                return 'raised: impl %r model %r' % (impl['raised'], b_e)
            for r, ir, o in zip(c['reads'], impl['reads'], outs):
                if r is None:
                    continue
                pre = sorted([k, 'i' if isinstance(v, int) else 's', str(v)] for k, v in r[1])
                if o[0] == 0 and (ir['name'] != r[0].strip() and ir['name'] != r[0] or ir['tags'] != pre):
                    return 'read should be untouched: %r' % (ir,)
                if o[0] == 2:
                    exp = {'name': U(o[1]), 'tags': sorted(m_tags(o[2]) + pre)}
                    if exp != ir:
                        return 'tagged read differs: impl %r model %r' % (ir, exp)
            return None
        elif f == 'chain':
            j = int(kind.split(':')[1])
            if kind.startswith('pre'):
                return None
            hd = impl['headers'][j]
            if 'error' in hd:
                a = ('err', err_class(hd['error']))
            elif isinstance(impl.get('reads'), dict):
                a = ('err', err_class(impl['reads']['error']))
            elif 'reads' not in impl:
                return None      # the mate's header was refused; nothing was tagged
            else:
                a = ('ok', impl['reads'][j])
            b = m_res(mv, m_read)
            if a[0] == 'err' and b[0] == 'err' and 'reads' in impl and isinstance(impl['reads'], dict):
                return None      # digest aborted on either mate: classes may belong to the other mate
        else:
            return 'unknown case'
        return None if a == b else 'impl %r model %r' % (a, b)

    def correspondence(self):
        cases = self.build_cases()
        impl = fw.run_impl('impl_c04.py', {'op': 'batch', 'cases': cases})
        # second stage: the tagger on the real demultiplexed headers and on mutations of them
        real_headers = sorted(set(h['header'] for c, r in zip(cases, impl) if c['f'] == 'chain' and 'headers' in r
                                  for h in r['headers'] if 'header' in h))
        # ... and the demultiplexer on its own headers (a demultiplexed FASTQ demultiplexed again): the records built from
        # raw headers (with and without library / index tags: 10, 11, 13 written items) and the real strategy headers
        own = sorted(set(r['header'] for c, r in zip(cases, impl) if c['f'] == 'rawchain' and 'header' in r))
        bare = [{'f': 'rawchain', 'header': h, 'parser': p_, 'library': None} for h in self.HEADERS[:8] for p_ in (False, True)]
        bimpl = fw.run_impl('impl_c04.py', {'op': 'batch', 'cases': bare})
        own += sorted(set(r['header'] for r in bimpl if 'header' in r))
        self.rng.shuffle(own)
        recases = [{'f': 'raw', 'header': '@' + h, 'parser': self.rng.random() < 0.5, 'library': self.rng.choice([None, 'LIB2']),
                    'reason': None} for h in own[:80 if self.tier == 'quick' else 2000] + real_headers[:40 if self.tier == 'quick' else 1000]]
        dcases = bare + recases + self.gen_digest(real_headers) + self.gen_malformed_names() + self.gen_history(real_headers)
        dimpl = fw.run_impl('impl_c04.py', {'op': 'batch', 'cases': dcases})
        cases, impl = cases + dcases, impl + dimpl
        self.cases, self.impl = cases, impl
        kinds = {}
        for c in cases:
            kinds[c['f']] = kinds.get(c['f'], 0) + 1
        chains = [(c, r) for c, r in zip(cases, impl) if c['f'] == 'chain']
        accepted = [(c, r) for c, r in chains if 'stores' in r]
        strat_acc = {}
        for c, r in accepted:
            strat_acc[c['strategy']] = strat_acc.get(c['strategy'], 0) + 1
        hl = [len(h['header']) for c, r in accepted for h in r['headers'] if 'header' in h]

        def form(h):
            if ';' in h:
                return 'scmo'
            if '_s_' in h and ':' not in h:
                return '3dec'
            n = len(re.split('[: ]', h.replace('::', '')))
            return {11: 'illumina-11', 10: 'illumina-10', 7: 'illumina-7'}.get(n, 'other')
        forms = {}
        for c, r in accepted:
            k = form(c['records'][0][0]) + ('' if c.get('parser', True) else '/no-index-parser')
            if c.get('ctx') == 'hd1':
                self.n_hd1 = getattr(self, 'n_hd1', 0) + 1
            forms[k] = forms.get(k, 0) + 1
        refused = sum(1 for c, r in accepted for h in r['headers'] if 'error' in h)
        self.cov.update({
            'evaluations': len(cases),
            'rule': 'distinct by canonical hash of the case; non-trivial = phred strings with a character >= "U" or a string case '
                    'longer than 1; fqSafe inputs that change; raw headers accepted by a parser; encode stores with >= 3 written '
                    'tags; chains accepted by the strategy; digest names that are tagged or raise',
            'cases_by_function': kinds, 'corpus_cases': self.n_corpus,
            'strategies_registered': len(self.strategy_info), 'strategies_accepting': len(strat_acc),
            'accepted_pairs_per_strategy': strat_acc,
            'chain_rejected_by_strategy': len(chains) - len(accepted),
            'chain_header_length_hist': {'<200': sum(1 for x in hl if x < 200), '200-249': sum(1 for x in hl if 200 <= x < 250),
                                         '250-254': sum(1 for x in hl if 250 <= x <= 254)},
            'chain_headers_refused_too_long': refused, 'accepted_by_header_form': forms,
            'exhaustive': False,
            'exhaustive_scopes': 'phred characters 0..299 (covers 33..126) one by one; fqSafe characters 0..399 one by one',
        })
        if not self.model_ok:
            return
        q = self.model_inputs(cases, impl)
        m0 = fw.run_model('C04', 0, [x[1] for x in q if not x[2].startswith('pre')])
        m1 = fw.run_model('C04', 1, [x[1][1] for x in q if x[2].startswith('pre')])
        it0, it1 = iter(m0), iter(m1)
        dis, nontriv, pre_hit, pre_n, validated = [], set(), 0, 0, 0
        pairs = []
        for (i, inp, kind) in q:
            c = cases[i]
            if kind.startswith('pre'):
                pre_n += 1
                pre_hit += next(it1)
                continue
            mv = next(it0)
            pairs.append((inp, mv))
            if kind == 'form':        # which form of the regenerated table takes the header (evidence only)
                fk = 'form %d' % (mv[0] + 1) if mv else 'no form'
                r = impl[i]
                oc = 'tagged' if 'read' in r else ('raises %s at %s' % (err_class(r['error']), r.get('stage')) if 'error' in r else 'skipped')
                np_ = len(re.split('[: ]', c['header']))
                hf = self.cov.setdefault('header_forms_hist', {})
                key = '%s / %s' % (fk, oc)
                hf[key] = hf.get(key, 0) + 1
                pc = self.cov.setdefault('header_pieces_hist', {})
                pc[str(np_)] = pc.get(str(np_), 0) + 1
                continue
            d = self.compare(c, kind, impl[i], mv)
            validated += 1
            if d is not None:
                dis.append({'case': c, 'kind': kind, 'diff': d[:1500]})
            elif self.nontrivial(c, impl[i], mv):
                nontriv.add(fw.canon_hash(json.dumps(c, sort_keys=True)))
        self.cov.update({
            'distinct_nontrivial': len(nontriv), 'traces_validated_against_impl': validated,
            'precondition_hit_rate': round(pre_hit / max(1, pre_n), 4), 'precondition_cases': pre_n,
            'disagreements': len(dis),
            'samples': [{'case': cases[i], 'impl': impl[i]} for i in self.sample_idx(cases)],
        })
        idx = sorted(self.rng.sample(range(len(pairs)), min(100, len(pairs))))
        ok, nm, log = fw.vm_crosscheck('C04', 0, [pairs[i] for i in idx])
        self.cov['vm_compute_crosscheck'] = {'cases': len(idx), 'mismatches': nm}
        if not ok:
            raise fw.Broken('extraction', 'vm_compute and extracted model disagree: ' + log[-800:])
        if dis:
            self.dis = dis
            raise fw.Broken('correspondence', 'model and implementation disagree on %d cases; first: %s'
                            % (len(dis), json.dumps(dis[0])[:1200]))
        # the coordinates clause (Props C04_coordinates_restored: specb = run_C04 mode 2, its precondition = mode 3)
        # evaluated on the IMPLEMENTATION's query names against the ORIGINAL headers; the python transcription used by
        # search() is cross-checked against the Coq specb on every one of them
        sp = []
        for c, r in zip(cases, impl):
            if c['f'] == 'rawchain' and 'read' in r:
                sp.append((c, c['header'], r['read']['name']))
            if c['f'] == 'chain' and isinstance(r.get('reads'), list):
                for j, rd in enumerate(r['reads']):
                    if j < len(c['records']):
                        sp.append((c, c['records'][j][0], rd['name']))
        pre = fw.run_model('C04', 3, [[S(h)] for c, h, n in sp])
        okb = fw.run_model('C04', 2, [[S(h), S(n)] for c, h, n in sp])
        twf = fw.run_model('C04', 3, [[]])[0]
        self.cov['specification_coordinates'] = {'query_names_evaluated': len(sp), 'precondition_hits(header has an Illumina shape)': sum(pre),
                                                 'violations': sum(1 for x in okb if not x), 'generated_tables_wf': bool(twf)}
        for (c, h, n), p_, o_ in zip(sp, pre, okb):
            pc = py_coords_of(h)
            if (pc is not None) != bool(p_) or (pc is None or pc == n) != bool(o_):
                raise fw.Broken('harness', 'python transcription of coords_of disagrees with the Coq specb on %r' % h)
            if not o_:
                raise fw.Broken('specification', 'header %r: query name after demultiplex -> digest is %r, the coordinates are %r'
                                % (h, n, pc))
        # the statement of C04_end_to_end evaluated on the real chain against the ORIGINAL input reads
        tagdef = {t[0]: (t[1], t[2]) for t in self.reflected['tags']}
        nspec, orig_rq, corrected = 0, 0, 0
        for c, r in zip(cases, impl):
            if c['f'] == 'chain' and 'stores' in r:
                nspec += 1
                w = self.chain_violation(c, r, tagdef, self.strategy_info)
                st = self.chain_stats
                orig_rq += st[0]
                corrected += st[1]
                if w:
                    self.cov['specification_on_chain'] = {'chains': nspec, 'violation': w['what'][:300]}
                    raise fw.Broken('specification', w['what'])
        self.cov['specification_on_chain'] = {
            'chains': nspec, 'double_demultiplexing_chains': sum(1 for c, r in zip(cases, impl) if c['f'] == 'chain' and c.get('second') and 'stores' in r), 'reads_with_RQ_and_RX_compared_to_the_original_input_read': orig_rq,
            'reads_with_corrected_barcode(bc != BC)': corrected, 'violations': 0}

    def sample_idx(self, cases):
        out, seen = [], set()
        for i, c in enumerate(cases):
            if c['f'] not in seen and (c['f'] != 'chain' or i % 3 == 0):
                seen.add(c['f'])
                out.append(i)
        return out

    def nontrivial(self, c, impl, mv):
        f = c['f']
        if f.startswith('phred'):
            return len(c['s']) > 1 or (len(c['s']) == 1 and ord(c['s']) >= 85)
        if f == 'fqsafe':
            return 'out' in impl and impl['out'] != c['s']
        if f == 'raw':
            return 'store' in impl
        if f == 'rawchain':
            return True
        if f == 'encode':
            return len(c['store']) >= 3
        if f == 'chain':
            return 'stores' in impl
        if f == 'digest':
            return bool(impl.get('raised')) or any(o[0] == 2 for o in mv[0])
        if f == 'history':
            return True
        return False

    # ---------------------------------------------------------------- search: the specification on the implementation
    @staticmethod
    def spec_safe(s):
        return ''.join(c for c in s if c in SAFE)

    def spec_wf(self, store):
        keys = set(t[0] for t in self.reflected['tags'])
        return all(k in keys for k, t, v in store) and not any(c in ';:' or c.isspace() for k, t, v in store for c in v)

    def search(self):
        """Direct python transcription of the theorem statements (no model, no Gen constants), evaluated on the
        implementation's own outputs: C04_phred_total/_roundtrip, C04_fqsafe_idem, C04_refuse_long (pysam itself is
        the judge of 'can be stored'), C04_roundtrip/_end_to_end on the real chain."""
        if not hasattr(self, 'reflected'):
            self.reflected = fw.run_impl('impl_c04.py', {'op': 'reflect'})
        if not hasattr(self, 'cases'):
            self.cases = self.build_cases()
            self.impl = fw.run_impl('impl_c04.py', {'op': 'batch', 'cases': self.cases})
        tagdef = {t[0]: (t[1], t[2]) for t in self.reflected['tags']}
        letters = _string.ascii_letters
        W = self.witnesses
        # ---- quality codec: total on 33..126, decode(encode(q)) = saturate(q)
        chars = [chr(c) for c in range(33, 127)]
        enc = fw.run_impl('impl_c04.py', {'op': 'batch', 'cases': [{'f': 'phred_enc_tag', 's': c} for c in chars]})
        bad = [(c, r) for c, r in zip(chars, enc) if 'error' in r]
        if bad:
            c, r = bad[0]
            W.append({'key': 'phred:total', 'what': 'phredToFastqHeaderSafeQualities(%r) (phred character %d) raises %s; '
                      'the encoding must be defined for every phred character 33..126 (first of %d failing characters)'
                      % (c, ord(c), r['error'], len(bad)), 'input': c, 'impl': r['error'], 'expected': 'a letter (saturating)'})
        okc = [(c, r['out']) for c, r in zip(chars, enc) if 'out' in r]
        dec = fw.run_impl('impl_c04.py', {'op': 'batch', 'cases': [{'f': 'phred_dec', 's': e} for c, e in okc]})
        for (c, e), r in zip(okc, dec):
            exp = chr(min(max(ord(c), 33), 84))
            if r.get('out') != exp:
                W.append({'key': 'phred:roundtrip', 'what': 'quality %r encodes to %r which decodes to %r, expected %r'
                          % (c, e, r.get('out', r.get('error')), exp), 'input': c, 'impl': r, 'expected': exp})
                break
        # ---- fqSafe idempotent, identity on the safe alphabet
        fq = [(c, r['out']) for c, r in zip(self.cases, self.impl) if c['f'] == 'fqsafe' and 'out' in r]
        again = fw.run_impl('impl_c04.py', {'op': 'batch', 'cases': [{'f': 'fqsafe', 's': o} for c, o in fq]})
        for (c, o), r in zip(fq, again):
            if r.get('out') != o or (self.spec_safe(c['s']) == c['s'] and o != c['s']):
                W.append({'key': 'fqsafe', 'what': 'fqSafe(%r) = %r, fqSafe of that = %r' % (c['s'], o, r.get('out')),
                          'input': c['s'], 'impl': o})
                break
        # ---- refusal of headers that cannot be stored: exact boundary, pysam judges
        base = [['Is', 's', '@NS500414'], ['RN', 's', '628'], ['Fc', 's', 'H7YVNBGXC'], ['La', 's', '1'], ['Ti', 's', '11101'],
                ['CX', 's', '15963'], ['CY', 's', '1046'], ['RP', 's', '1'], ['LY', 's', ''], ['BC', 's', 'ACACACTA']]
        l0 = len(';'.join('%s:%s' % (k, v) for k, t, v in base if k != 'RP'))
        bcases = []
        for n in range(250, 261):
            st = [list(e) for e in base]
            st[8][2] = 'L' * (n - l0)
            bcases.append({'f': 'encode', 'store': st})
        ecases = bcases + [c for c in self.cases if c['f'] == 'encode']
        eimpl = fw.run_impl('impl_c04.py', {'op': 'batch', 'cases': bcases}) + \
            [r for c, r in zip(self.cases, self.impl) if c['f'] == 'encode']
        for c, r in zip(ecases, eimpl):
            if not self.spec_wf(c['store']):
                continue
            exp = ';'.join('%s:%s' % (k, v) for k, t, v in c['store'] if not tagdef[k][1])
            if 'header' in r and r['header'] != exp:
                W.append({'key': 'encode:header', 'what': 'asFastq header differs from k:v;k:v of the written tags: %r vs %r'
                          % (r['header'], exp), 'input': c['store'], 'impl': r['header'], 'expected': exp})
                break
            if 'header' in r and r['pysam_accepts'] is not True:
                W.append({'key': 'limit:accepts-unstorable',
                          'what': 'asFastq accepts a %d character header that a BAM record cannot hold (pysam: %s); a header '
                                  'too long to be stored must be refused' % (len(exp), r['pysam_accepts']),
                          'input': c['store'], 'impl': 'accepted', 'expected': 'ValueError'})
                break
            if 'error' in r and err_class(r['error']) == 'HeaderTooLong' and len(exp) <= BAM_QNAME_MAX:
                W.append({'key': 'limit:refuses-storable', 'what': 'asFastq refuses a %d character header that fits a BAM record'
                          % len(exp), 'input': c['store'], 'impl': r['error'], 'expected': exp})
                break
            if 'error' in r and err_class(r['error']) != 'HeaderTooLong':
                W.append({'key': 'encode:error', 'what': 'asFastq raises %s on a well-formed tag store' % r['error'],
                          'input': c['store'], 'impl': r['error'], 'expected': exp})
                break
        # ---- header forms (python transcription of C04_coordinates_parse / _restored, C04_header_accept_iff,
        #      C04_malformed_header_raises), on the implementation's own outputs
        for c, r in zip(self.cases, self.impl):
            if c['f'] not in ('rawchain', 'raw') or 'skip' in r:
                continue
            w = self.header_violation(c, r)
            if w:
                W.append(w)
                break
        # ---- statelessness: on one flagger every read is tagged exactly as it is tagged on its own
        if not any(c['f'] == 'history' for c in self.cases):
            hc = self.gen_history([])
            self.cases = self.cases + hc
            self.impl = self.impl + fw.run_impl('impl_c04.py', {'op': 'batch', 'cases': hc})
        for c, r in zip(self.cases, self.impl):
            if c['f'] != 'history' or 'calls' not in r:
                continue
            w = self.history_violation(c, r)
            if w:
                W.append(w)
                break
        # ---- the chain: every written field restored, SM / MI / name derived
        info = getattr(self, 'strategy_info', None) or fw.run_impl('impl_c04.py', {'op': 'strategies'})
        for c, r in zip(self.cases, self.impl):
            if c['f'] != 'chain' or 'stores' not in r:
                continue
            w = self.chain_violation(c, r, tagdef, info)
            if w:
                W.append(w)
                break

    def header_violation(self, c, r):
        """the statement about raw headers: an Illumina-shaped header is accepted (at most NonMultiplexable for an unknown
        index), its seven coordinates reach Is..CY, the index as written reaches aa, the restored query name is the text
        between '@' and the first blank; a header of none of the forms (by separator count), not scmo, not 3-DEC, is
        refused with ValueError when the record is built"""
        h = c['header']
        co = py_coords_of(h)
        what = None
        if co is not None:
            fs = co.split(':')
            if 'error' in r and r.get('stage', 'record') == 'record':
                if err_class(r['error']) != 'NonMultiplexable' or not c.get('parser'):
                    what = ('header', 'refused: ' + r['error'], 'accepted')
            elif 'store' in r:
                d = {k: v for k, t, v in r['store']}
                exp = dict(zip(('Is', 'RN', 'Fc', 'La', 'Ti', 'CX', 'CY'), ['@' + fs[0]] + fs[1:]))
                t = h[1:].split(' ', 1)[1].split(':') if ' ' in h else []
                exp['aa'] = t[3] if len(t) == 4 else 'N'
                for k, v in exp.items():
                    if d.get(k) != v:
                        what = ('tag %s of the record' % k, d.get(k), v)
                        break
            if what is None and 'read' in r and r['read']['name'] != co:
                what = ('query name', r['read']['name'], co)
        else:
            n1 = sum(1 for ch in h if ch in ': ')
            n2 = sum(1 for ch in h.replace('::', '') if ch in ': ')
            n3 = h.count(':')
            if n1 != 10 and n2 != 9 and n3 != 6 and not h.startswith('@Is') and h.count('_') != 4:
                if not ('error' in r and r.get('stage', 'record') == 'record' and err_class(r['error']) == 'ValueError'):
                    what = ('malformed header', 'accepted: %r' % (r.get('store') or r.get('error')), 'ValueError')
        if what:
            return {'key': 'header:' + what[0].split(' ')[0], 'what': 'raw header %r (index parser %s): %s is %r, expected %r'
                    % (h, 'given' if c.get('parser') else 'not given', what[0], what[1], what[2]),
                    'input': c, 'impl': what[1], 'expected': what[2]}
        return None

    def history_violation(self, c, r):
        for j, (call, res) in enumerate(zip(c['calls'], r['calls'])):
            stopped = False
            for k, (rd, got, alone) in enumerate(zip(call, res['reads'], res['alone'])):
                if rd is None:
                    continue
                if any(t == 'SM' for t, v in rd[1]):
                    stopped = True                    # an already tagged read ends the call
                if stopped or res['raised'] or alone['raised']:
                    if alone['raised'] and not res['raised'] and not stopped:
                        return {'key': 'history:raise', 'what': 'call %d read %d (%r) raises %s on a fresh QueryNameFlagger but not in '
                                'the history' % (j + 1, k + 1, rd[0], alone['raised']), 'input': c, 'impl': got, 'expected': alone}
                    continue
                if got['name'] != alone['name'] or got['tags'] != alone['tags']:
                    a, b = {t[0]: t[2] for t in got['tags']}, {t[0]: t[2] for t in alone['tags']}
                    diff = sorted(t for t in set(a) | set(b) if a.get(t) != b.get(t))
                    prev = [x[0][0] for x in c['calls'][:j] if x and x[0]]
                    return {'key': 'history:stale-tags',
                            'what': 'one QueryNameFlagger, call %d: read %r gets %s; digested alone the same read gets %s '
                                    '(earlier names on this flagger: %r)'
                                    % (j + 1, rd[0], {t: a.get(t) for t in diff}, {t: b.get(t) for t in diff}, prev[-3:]),
                            'input': c, 'impl': got, 'expected': alone}
        return None

    def chain_violation(self, c, r, tagdef, info):
        letters = _string.ascii_letters
        self.chain_stats = [0, 0]
        for j, st in enumerate(r['stores']):
            hd = r['headers'][j]
            if st is None and 'header' in hd and all(it.count(':') == 1 for it in hd['header'].split(';')):
                st = [[it.split(':')[0], 's', it.split(':')[1]] for it in hd['header'].split(';')]   # bulk strategy: fastq text
            if st is None or not self.spec_wf(st):
                continue
            exp_h = ';'.join('%s:%s' % (k, v) for k, t, v in st if not tagdef[k][1])
            what = None
            if 'error' in hd:
                if err_class(hd['error']) == 'HeaderTooLong' and len(exp_h) > BAM_QNAME_MAX:
                    continue
                what = ('header', hd['error'], exp_h)
            elif hd['header'] != exp_h:
                what = ('header', hd['header'], exp_h)
            elif isinstance(r.get('reads'), dict):
                if len(exp_h) > BAM_QNAME_MAX:
                    return {'key': 'limit:accepts-unstorable', 'what': 'strategy %s: asFastq accepts a %d character header that a '
                            'BAM record cannot hold (%s)' % (c['strategy'], len(exp_h), r['reads']['error']),
                            'input': c, 'impl': hd['header'], 'expected': 'ValueError'}
                what = ('digest', r['reads']['error'], 'tags')
            elif 'reads' in r:
                tags = {k: v for k, t, v in r['reads'][j]['tags']}
                d = {k: v for k, t, v in st}
                sf = self.spec_safe
                exp = {}
                for k, t, v in st:
                    if tagdef[k][1] or k in ('SM', 'MI', 'ah', 'RG', 'QM'):
                        continue
                    if tagdef[k][0]:
                        exp[k] = ''.join(chr(letters.index(x) + 33) for x in v) if all(x in letters for x in v) else None
                    else:
                        exp[k] = sf(v)
                si = info.get(c['strategy'], {})
                u = si.get('umi')
                if c.get('second') and info.get(c['second'], {}).get('umi'):
                    u = None             # the second pass extracts its own UMI
                oh = c['records'][j][0] if j < len(c['records']) else ''
                of = re.split('[: ]', oh)
                co = py_coords_of(oh)
                if co is not None and not c.get('second'):
                    # the ORIGINAL Illumina header, any of its shapes: the coordinates come back as tags and as query name
                    for k7, v7 in zip(('Is', 'RN', 'Fc', 'La', 'Ti', 'CX', 'CY'), co.split(':')):
                        exp[k7] = v7
                    if r['reads'][j]['name'] != co:
                        what = ('query name', r['reads'][j]['name'], co)
                if oh.startswith('@') and ';' not in oh and len(of) == 11:
                    # the ORIGINAL Illumina header: coordinates and sequencing index come back
                    for k7, v7 in zip(('Is', 'RN', 'Fc', 'La', 'Ti', 'CX', 'CY'), of[:7]):
                        exp[k7] = sf(v7)
                    exp['aa'] = sf(of[10])
                    if c.get('parser', True) and of[10].isdigit():
                        exp['aA'] = sf(of[10])       # a numeric index is its own corrected index
                        exp['aI'] = sf(of[10])
                if r.get('library') is not None and ';' not in oh:
                    exp['LY'] = sf(r['library'])
                if u and u[0] < len(c['records']):
                    useq = c['records'][u[0]][1][u[1]:u[1] + u[2]]
                    q = c['records'][u[0]][3][u[1]:u[1] + u[2]]
                    # strategies that run UmiBarcodeDemuxMethod.demultiplex unchanged must restore the UMI of the input
                    # read; the others are held to it when the stored RX is that slice
                    if si.get('plain') or c.get('second') or ('RQ' in d and useq == d.get('RX')):
                        exp['RX'] = sf(useq)
                        exp['RQ'] = ''.join(chr(min(max(ord(x), 33), 84)) for x in q)   # original characters, saturated
                        self.chain_stats[0] += 1
                if 'bc' in d and 'BC' in d and d['bc'] != d['BC']:
                    self.chain_stats[1] += 1
                if 'bi' in d and 'LY' in d:
                    exp['SM'] = sf(d['LY']) + '_' + sf(d['bi'])
                if 'aA' in d and 'BC' in d and 'QT' not in d:
                    exp['MI'] = sf(d['BC']) + sf(d.get('RX', '')) + sf(d['aA'])
                for k, v in exp.items():
                    if what is None and v is not None and tags.get(k) != v:
                        what = ('tag ' + k, tags.get(k), v)
                        break
                if what is None and all(k in d for k in ('Is', 'RN', 'Fc', 'La', 'Ti', 'CX', 'CY')):
                    en = ':'.join(sf(d[k]) for k in ('Is', 'RN', 'Fc', 'La', 'Ti', 'CX', 'CY'))
                    if r['reads'][j]['name'] != en:
                        what = ('query name', r['reads'][j]['name'], en)
            if what:
                return {'key': 'roundtrip:' + what[0], 'what': 'strategy %s%s, library %r, read %d: %s after demultiplex -> header -> digest '
                        'is %r, expected %r' % (c['strategy'], (' then demultiplexed again with ' + c['second']) if c.get('second') else '',
                                                r.get('library'), j + 1, what[0], what[1], what[2]),
                        'input': c, 'impl': what[1], 'expected': what[2]}
        return None
