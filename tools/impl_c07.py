"""runs the REAL MoleculeIterator (singlecellmultiomics.molecule.iterator) on in-memory pysam reads for C07.

payload: {'cases': [{'frags': [spec...], 'cls': 'Fragment'|'HashedFragment', 'cfgs': [cfg...]}]}
  spec = {'chrom': int, 'r1': [start, reflen, reverse(, deletion)] | None, 'r2': same | None,
          'sm': int, 'rx': str, 'qcfail': bool}   (deletion d>0: cigar aM dD bM, a+b = reflen-d)
  cls 'CHIC' = the real CHICFragment + CHICMolecule (site anchored; compared with the specification only)
  cfg  = {'every': int|None, 'pooling': 0|1, 'cache': int, 'radius': int, 'hd': int, 'yield_invalid': bool}
result per case: {'abs': [abstract fragment per spec, through the implementation's own accessors],
                  'runs': [{'steps': [[mol...] per consumed fragment], 'flush': [mol...], 'ok': bool,
                            'error': str|None, 'late': [...]}]}
  mol = [ids, sample, strand, chrom, spanStart, spanEnd, umi]
  abstract fragment = [id, valid, sample, strand, contig, start, end, umi, hash,  oracle span [contig,start,end]
  recomputed from pysam reference_start/reference_end by the documented rule, arrival coordinate]"""
import os, sys
import fw

NCHROM = 4


def handler(p):
    import pysam
    from singlecellmultiomics.molecule import MoleculeIterator, Molecule, CHICMolecule
    from singlecellmultiomics.fragment import Fragment, CHICFragment

    class HashedFragment(Fragment):
        """a Fragment whose buffer key is (sample, contig, strand), the way SingleEndTranscriptFragment sets it"""
        def __init__(self, reads, **kwargs):
            Fragment.__init__(self, reads, **kwargs)
            self.match_hash = (self.sample, self.span[0], self.strand)

    classes = {'Fragment': Fragment, 'HashedFragment': HashedFragment, 'CHIC': CHICFragment}
    molclasses = {'Fragment': Molecule, 'HashedFragment': Molecule, 'CHIC': CHICMolecule}
    header = pysam.AlignmentHeader.from_dict({
        'HD': {'VN': '1.6', 'SO': 'coordinate'},
        'SQ': [{'SN': 'chr%d' % i, 'LN': 10 ** 9} for i in range(NCHROM)]})
    chrom_code = {'chr%d' % i: i for i in range(NCHROM)}
    chrom_code[None] = -1

    def mkread(idx, spec, which):
        r = spec['r%d' % which]
        if r is None:
            return None
        start, ln, rev = r[:3]
        dele = r[3] if len(r) > 3 else 0
        a = pysam.AlignedSegment(header)
        a.query_name = 'f%d' % idx
        a.reference_id = spec['chrom']
        a.reference_start = start
        q = ln - dele
        a.query_sequence = ('ACGTTGCA' * (q // 8 + 1))[:q]
        if dele > 0:
            left = q // 2
            a.cigarstring = '%dM%dD%dM' % (left, dele, q - left)
        else:
            a.cigarstring = '%dM' % ln
        assert a.reference_end == start + ln
        a.mapping_quality = 60
        flag = 16 if rev else 0
        if spec['r1'] is not None and spec['r2'] is not None:
            flag |= 1 | (64 if which == 1 else 128)
            if spec['r%d' % (3 - which)][2]:
                flag |= 32
        elif which == 2:
            flag |= 1 | 128
        if spec.get('qcfail'):
            flag |= 512
        a.flag = flag
        a.set_tag('SM', 'S%d' % spec['sm'])
        a.set_tag('RX', spec['rx'])
        return a

    def pairs(specs):
        return [(mkread(i, s, 1), mkread(i, s, 2)) for i, s in enumerate(specs)]

    def fid(fragment):
        for r in fragment.reads:
            if r is not None:
                return int(r.query_name[1:])

    def scode(s):
        return {False: 0, True: 1, None: 2}[s]

    def smp(s):
        return int(s[1:]) if s is not None else -1

    def z(x):
        return -1 if x is None else int(x)

    def oracle_span(r1, r2):
        """the span rule of Fragment.update_span restated on pysam's own reference_start / reference_end"""
        if r1 is not None and r2 is not None:
            name = r1.reference_name
            if r1.is_reverse and not r2.is_reverse:
                return [chrom_code[name], r2.reference_start, r1.reference_end]
            if not r1.is_reverse and r2.is_reverse:
                return [chrom_code[name], r1.reference_start, r2.reference_end]
            return [chrom_code[name], min(r1.reference_start, r2.reference_start), max(r1.reference_start, r2.reference_start)]
        r = r1 if r1 is not None else r2
        return [chrom_code[r.reference_name], r.reference_start, r.reference_end]

    def enc_mol(m):
        return [[fid(f) for f in m.fragments], smp(m.sample), scode(m.strand), chrom_code[m.chromosome],
                z(m.spanStart), z(m.spanEnd), m.get_umi()]

    out = []
    devnull = open(os.devnull, 'w')
    for case in p['cases']:
        cls = classes[case['cls']]
        specs = case['frags']
        # abstraction through the implementation's accessors
        hashes = {}
        absf = []
        fresh = []
        for i, (r1, r2) in enumerate(pairs(specs)):
            osp = oracle_span(r1, r2)
            arrival = max(r.reference_start for r in (r1, r2) if r is not None)
            f = cls([r1, r2], assignment_radius=0, umi_hamming_distance=0)
            fresh.append(f)
            sp = f.get_span()
            h = hashes.setdefault(f.match_hash, len(hashes))
            absf.append([i, bool(f.is_valid()), smp(f.get_sample()), scode(f.get_strand()), chrom_code[sp[0]],
                         z(sp[1]), z(sp[2]), f.get_umi(), h, osp, arrival])
        runs = []
        for cfg in case['cfgs']:
            cons = [0]
            n = len(specs)

            def src(ps):
                for i, pr in enumerate(ps):
                    cons[0] = i
                    yield pr
                cons[0] = n
            steps = [[] for _ in range(n + 1)]
            mols = []
            err = None
            old = sys.stdout
            sys.stdout = devnull
            try:
                it = MoleculeIterator(src(pairs(specs)), molecule_class=molclasses[case['cls']], fragment_class=cls,
                                      check_eject_every=cfg['every'], pooling_method=cfg['pooling'],
                                      perform_qflag=False, yield_invalid=cfg['yield_invalid'],
                                      molecule_class_args={'cache_size': cfg['cache']},
                                      fragment_class_args={'assignment_radius': cfg['radius'],
                                                           'umi_hamming_distance': cfg['hd']})
                for m in it:
                    steps[cons[0]].append(enc_mol(m))
                    mols.append((cons[0], m))
            except BaseException as e:
                err = '%s: %s' % (type(e).__name__, e)
            finally:
                sys.stdout = old
            # "no molecule is emitted while a later fragment could still join it": evaluated with the
            # implementation's own comparison on freshly built fragments of the later reads
            late = []
            try:
                for t, m in mols:
                    if t >= n or not all(absf[fid(f)][1] for f in m.fragments):
                        continue
                    for k in range(t + 1, n):
                        if not absf[k][1]:
                            continue
                        h = cls(list(pairs([specs[k]])[0]), assignment_radius=cfg['radius'],
                                umi_hamming_distance=cfg['hd'])
                        # pooling 1 only ever offers the fragment to the molecules filed under its own match_hash
                        joins = (m.match_hash == h.match_hash and m == h) if cfg['pooling'] == 1 \
                            else any(f == h for f in m.fragments)
                        if joins:
                            late.append([t, [fid(f) for f in m.fragments], k])
                            break
            except BaseException as e:
                late.append(['error', '%s: %s' % (type(e).__name__, e)])
            if err is not None:
                # drop the trailing empty steps after the one that raised
                last = max([t for t, _ in mols] + [cons[0]])
                steps_out = steps[:min(last, n - 1) + 1] if n else []
                runs.append({'steps': steps_out, 'flush': [], 'ok': False, 'error': err, 'late': late})
            else:
                runs.append({'steps': steps[:n], 'flush': steps[n], 'ok': True, 'error': None, 'late': late})
        # histories on ONE iterator object over a re-iterable source: passes abandoned after k yields, then a complete pass
        hist_out = []
        for h in case.get('histories', []):
            cfg = h['cfg']
            n = len(specs)
            cons = [0]

            class Src:
                def __iter__(self_):
                    def gen():
                        for i, pr in enumerate(pairs(specs)):
                            cons[0] = i
                            yield pr
                        cons[0] = n
                    return gen()

            def snapshot(it):
                # internal buffers are read for information only: a restructured iterator without these attributes
                # is not an error (the run after the abandoned passes is what the statement constrains)
                try:
                    return snapshot_(it)
                except (AttributeError, TypeError, KeyError):
                    return None

            def snapshot_(it):
                if cfg['pooling'] == 0:
                    groups = [[fid(f) for f in m.fragments] for m in it.molecules]
                else:
                    groups = [[hashes.get(k, -1), [[fid(f) for f in m.fragments] for m in ms]]
                              for k, ms in it.molecules_per_cell.items()]
                return [groups, int(it.check_ejection_iter)]
            rec = {'states': [], 'final': None, 'error': None}
            old = sys.stdout
            sys.stdout = devnull
            try:
                it = MoleculeIterator(Src(), molecule_class=molclasses[case['cls']], fragment_class=cls,
                                      check_eject_every=cfg['every'], pooling_method=cfg['pooling'],
                                      perform_qflag=False, yield_invalid=cfg['yield_invalid'],
                                      molecule_class_args={'cache_size': cfg['cache']},
                                      fragment_class_args={'assignment_radius': cfg['radius'],
                                                           'umi_hamming_distance': cfg['hd']})
                for k in h['ks']:
                    g = iter(it)
                    try:
                        for _ in range(k):
                            next(g)
                    except StopIteration:
                        pass
                    g.close()
                    del g
                    rec['states'].append(snapshot(it))
                steps = [[] for _ in range(n + 1)]
                for m in it:
                    steps[cons[0]].append(enc_mol(m))
                rec['final'] = {'steps': steps[:n], 'flush': steps[n], 'ok': True, 'error': None, 'late': []}
            except BaseException as e:
                rec['error'] = '%s: %s' % (type(e).__name__, e)
            finally:
                sys.stdout = old
            hist_out.append(rec)
        out.append({'abs': absf, 'runs': runs, 'histories': hist_out})
    return {'cases': out}


fw.impl_main(handler)
