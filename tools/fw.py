"""Shared framework for the per-property checks (see DESIGN.md section 2).

A property module tools/cNN.py exposes a class `Prop(fw.PropBase)`; `./check CNN --tier quick`
drives it through: regenerate Gen (T) -> build proofs -> Print Assumptions / forbidden tokens ->
extract model -> correspondence (K) -> on any break: search for a failing input -> evidence.
"""
import hashlib, json, os, random, re, shutil, subprocess, sys, tempfile, time, fcntl

VERIF = os.path.dirname(os.path.dirname(os.path.abspath(__file__)))
REPO = os.environ.get('SCMO_REPO', '/repo')
COQ = os.path.join(VERIF, 'coq')
BUILD = os.path.join(VERIF, 'build')
PY = '/venv/bin/python'
NPROC = int(os.environ.get('VERIF_JOBS', '16'))

ALLOWED_AXIOMS = {
    # standard-library axioms a proof may depend on; each must be named in the evidence
    'functional_extensionality_dep', 'Eqdep.Eq_rect_eq.eq_rect_eq', 'JMeq_eq',
    'Classical_Prop.classic', 'proof_irrelevance', 'propositional_extensionality',
    'FunctionalExtensionality.functional_extensionality_dep',
}
FORBIDDEN = re.compile(r'\b(Admitted|admit|Axiom|Axioms|Parameter|Parameters|Conjecture|Conjectures|'
                       r'Unset\s+Guard\s+Checking|Unset\s+Positivity\s+Checking|Unset\s+Universe\s+Checking|'
                       r'bypass_check|Admit\s+Obligations|give_up|native_compute)\b')
TOPLEVEL_VAR = re.compile(r'^\s*(Variable|Variables|Hypothesis|Hypotheses|Context)\b')


# ----------------------------------------------------------------------------- S-expressions
def to_val(x):
    """python -> nested ints/lists (str -> list of codes, bool -> 0/1, None -> [], tuple -> list)"""
    if x is None:
        return []
    if isinstance(x, bool):
        return 1 if x else 0
    if isinstance(x, int):
        return x
    if isinstance(x, str):
        return [ord(c) for c in x]
    if isinstance(x, bytes):
        return list(x)
    if isinstance(x, (list, tuple)):
        return [to_val(e) for e in x]
    if hasattr(x, 'item'):  # numpy scalar
        return int(x.item())
    raise TypeError('cannot convert %r' % (x,))


def sexp(v):
    if isinstance(v, int):
        return str(v)
    return '(' + ' '.join(sexp(e) for e in v) + ')'


def parse_sexp(s):
    toks = s.replace('(', ' ( ').replace(')', ' ) ').split()
    pos = 0
    stack = [[]]
    for t in toks:
        if t == '(':
            stack.append([])
        elif t == ')':
            l = stack.pop()
            stack[-1].append(l)
        else:
            stack[-1].append(int(t))
    assert len(stack) == 1 and len(stack[0]) == 1, s[:200]
    return stack[0][0]


def coq_val(v):
    if isinstance(v, int):
        return 'VZ (%d)' % v if v < 0 else 'VZ %d' % v
    return 'VL [' + '; '.join(coq_val(e) for e in v) + ']'


def as_str(codes):
    return ''.join(chr(c) for c in codes)


def canon_hash(v):
    return hashlib.sha256(sexp(to_val(v)).encode()).hexdigest()[:16]


# ----------------------------------------------------------------------------- shell helpers
def sh(cmd, timeout=1800, cwd=None, env=None, input=None):
    e = dict(os.environ)
    e.update({'PYTHONHASHSEED': '0', 'PYTHONPATH': REPO, 'PIP_NO_INDEX': '1'})
    if env:
        e.update(env)
    try:
        p = subprocess.run(cmd, shell=isinstance(cmd, str), cwd=cwd, env=e, input=input,
                           capture_output=True, text=True, timeout=timeout)
        out = '\n'.join(l for l in (p.stdout + p.stderr).splitlines()
                        if 'WARNING: overwriting environment variables' not in l)
        return p.returncode, out
    except subprocess.TimeoutExpired as ex:
        return 124, 'TIMEOUT after %ss: %s' % (timeout, cmd)


class BuildLock:
    """file lock; one lock per name (per Coq file / per extracted model), so that checks of different
    properties never wait for each other's slow proofs"""
    def __init__(self, name='global'):
        self.name = name.replace('/', '__')

    def __enter__(self):
        d = os.path.join(BUILD, 'locks')
        os.makedirs(d, exist_ok=True)
        self.f = open(os.path.join(d, self.name + '.lock'), 'w')
        fcntl.flock(self.f, fcntl.LOCK_EX)
        return self

    def __exit__(self, *a):
        fcntl.flock(self.f, fcntl.LOCK_UN)
        self.f.close()


def coq_files():
    out = []
    for d in ('Lib', 'Gen', 'Model', 'Proofs', 'Props'):
        p = os.path.join(COQ, d)
        if os.path.isdir(p):
            out += sorted(os.path.join(d, f) for f in os.listdir(p) if f.endswith('.v'))
    return out


def ensure_makefile():
    files = coq_files()
    proj = '-Q . SCMO\n' + '\n'.join(files) + '\n'
    pp = os.path.join(COQ, '_CoqProject')
    old = open(pp).read() if os.path.exists(pp) else None
    if old != proj or not os.path.exists(os.path.join(COQ, 'Makefile')):
        with open(pp, 'w') as f:
            f.write(proj)
        rc, out = sh('coq_makefile -f _CoqProject -o Makefile', cwd=COQ)
        if rc != 0:
            raise RuntimeError('coq_makefile failed: ' + out)


def direct_deps(vrel):
    txt = strip_comments(open(os.path.join(COQ, vrel)).read())
    out = []
    for m in re.finditer(r'\b((?:SCMO\.)?(?:Lib|Gen|Model|Proofs|Props)\.[A-Za-z0-9_]+)\b', txt):
        name = m.group(1)
        if name.startswith('SCMO.'):
            name = name[5:]
        f = name.replace('.', '/') + '.v'
        if f != vrel and f not in out:
            out.append(f)
    return out


def coq_make(targets, timeout=1500):
    """Full .vo build (plain coqc, never -vos/-vok) of the given .vo/.v targets and everything they
    depend on inside SCMO, in dependency order, content-hash incremental, parallel per level.
    (A _CoqProject for coq_makefile is also written by setup; this builder is used by the checks
    because it is insensitive to unrelated files being edited concurrently.)"""
    from concurrent.futures import ThreadPoolExecutor
    vfiles = [t[:-3] + '.v' if t.endswith('.vo') else t for t in targets if not t.startswith('-')]
    if 'all' in vfiles:
        vfiles = coq_files()
    if True:
        deps, missing = {}, []
        todo = list(vfiles)
        while todo:
            f = todo.pop()
            if f in deps:
                continue
            if not os.path.exists(os.path.join(COQ, f)):
                missing.append(f)
                deps[f] = []
                continue
            deps[f] = direct_deps(f)
            todo += deps[f]
        if missing:
            return False, 'Error: missing Coq source file(s): %s (a Gen file is missing when the translator refused the source)' % missing
        level = {}

        def lv(f, stack=()):
            if f in level:
                return level[f]
            if f in stack:
                raise RuntimeError('dependency cycle at ' + f)
            level[f] = 1 + max([lv(d, stack + (f,)) for d in deps[f]] or [0])
            return level[f]
        for f in deps:
            lv(f)
        stamps = {}
        sdir = os.path.join(BUILD, 'stamps')
        os.makedirs(sdir, exist_ok=True)
        log = []
        t_end = time.time() + timeout

        def stamp_of(f):
            h = hashlib.sha256(open(os.path.join(COQ, f), 'rb').read())
            for d in sorted(deps[f]):
                h.update(stamps[d].encode())
            return h.hexdigest()

        def build_one(f):
            with BuildLock(f):
                return build_one_locked(f)

        def build_one_locked(f):
            sp = os.path.join(sdir, f.replace('/', '__') + '.stamp')
            vo = os.path.join(COQ, f[:-2] + '.vo')
            if os.path.exists(vo) and os.path.exists(sp) and open(sp).read() == stamps[f]:
                return True, ''
            if os.path.exists(sp):
                os.remove(sp)
            rc, out = sh('timeout %d coqc -Q . SCMO %s' % (max(10, int(t_end - time.time())), f), cwd=COQ,
                         timeout=max(20, int(t_end - time.time()) + 10))
            if rc == 0:
                with open(sp, 'w') as fh:
                    fh.write(stamps[f])
                return True, out
            if os.path.exists(vo):
                os.remove(vo)
            return False, out
        for L in sorted(set(level.values())):
            fs = sorted(f for f in deps if level[f] == L)
            for f in fs:
                stamps[f] = stamp_of(f)
            with ThreadPoolExecutor(max_workers=NPROC) as ex:
                results = list(ex.map(build_one, fs))
            for f, (ok, out) in zip(fs, results):
                if not ok:
                    log.append(out)
            if log:
                return False, '\n'.join(log)
    return True, ''


def coqc_capture(vfile, timeout=900):
    """compile one file (deps must be built) and capture what it prints."""
    with BuildLock(vfile):
        rc, out = sh('timeout %d coqc -Q . SCMO %s' % (timeout, vfile), cwd=COQ, timeout=timeout + 30)
    return rc == 0, out


def parse_assumptions(out):
    """returns list of (closed: bool, axioms: [names]) one per Print Assumptions block"""
    blocks = []
    lines = out.splitlines()
    i = 0
    while i < len(lines):
        l = lines[i]
        if l.startswith('Closed under the global context'):
            blocks.append((True, []))
        elif l.startswith('Axioms:'):
            ax = []
            i += 1
            while i < len(lines) and (lines[i].startswith(' ') or ' : ' in lines[i]) and lines[i].strip():
                m = re.match(r'^(\S+)\s*:', lines[i])
                if m:
                    ax.append(m.group(1))
                i += 1
            blocks.append((False, ax))
            continue
        i += 1
    return blocks


def theorem_names(vfile_abs):
    txt = open(vfile_abs).read()
    txt = re.sub(r'\(\*.*?\*\)', '', txt, flags=re.S)
    return re.findall(r'^\s*(?:Theorem|Lemma|Corollary|Example|Fact)\s+([A-Za-z0-9_\']+)', txt, flags=re.M)


def strip_comments(txt):
    # nested comments are rare in our sources; strip non-greedy repeatedly
    prev = None
    while prev != txt:
        prev = txt
        txt = re.sub(r'\(\*(?:(?!\(\*).)*?\*\)', ' ', txt, flags=re.S)
    return txt


def forbidden_scan(files):
    """grep the Coq sources a property depends on for forbidden declarations."""
    bad = []
    for rel in files:
        p = os.path.join(COQ, rel)
        txt = strip_comments(open(p).read())
        depth = 0
        for n, line in enumerate(txt.splitlines(), 1):
            if re.match(r'^\s*Section\b', line):
                depth += 1
            if re.match(r'^\s*End\b', line) and depth > 0:
                depth -= 1
            m = FORBIDDEN.search(line)
            if m:
                bad.append('%s:%d: %s' % (rel, n, m.group(0)))
            if depth == 0 and TOPLEVEL_VAR.match(line):
                bad.append('%s:%d: top-level %s' % (rel, n, line.strip().split()[0]))
    return bad


def coq_deps(vrel):
    """transitive SCMO dependencies (as relative .v paths) of a file, via coqdep."""
    seen, todo = [], [vrel]
    while todo:
        f = todo.pop()
        if f in seen or not os.path.exists(os.path.join(COQ, f)):
            continue
        seen.append(f)
        txt = strip_comments(open(os.path.join(COQ, f)).read())
        for m in re.finditer(r'(?:From\s+SCMO\s+)?Require\s+(?:Import\s+|Export\s+)?([^.]*(?:\.[A-Za-z][^.\s]*)*)\s*\.', txt):
            pass
        for m in re.finditer(r'\b((?:SCMO\.)?(?:Lib|Gen|Model|Proofs|Props)\.[A-Za-z0-9_]+)\b', txt):
            name = m.group(1)
            if name.startswith('SCMO.'):
                name = name[5:]
            todo.append(name.replace('.', '/') + '.v')
    return seen


# ----------------------------------------------------------------------------- extraction
def build_model(pid):
    """Extract coq/Extract/Extr<pid>.v -> build/ext/<pid>/model ; returns (ok, log)."""
    lo = pid.lower()
    d = os.path.join(BUILD, 'ext', pid)
    os.makedirs(d, exist_ok=True)
    extr = os.path.join(COQ, 'Extract', 'Extr%s.v' % pid)
    deps = coq_deps('Extract/Extr%s.v' % pid)
    targets = [f[:-2] + '.vo' for f in deps if not f.startswith('Extract/')]
    ok, out = coq_make(targets)
    if not ok:
        return False, out
    # rebuild only when something changed
    stamp = hashlib.sha256()
    for f in sorted(deps) + ['Extract/driver.ml.in']:
        stamp.update(open(os.path.join(COQ, f), 'rb').read())
    stamp = stamp.hexdigest()
    sp = os.path.join(d, 'stamp')
    if os.path.exists(sp) and open(sp).read() == stamp and os.path.exists(os.path.join(d, 'model')):
        return True, 'cached'
    with BuildLock('ext_' + pid):
        shutil.copy(extr, os.path.join(d, 'Extr.v'))
        rc, out = sh('timeout 600 coqc -Q %s SCMO Extr.v' % COQ, cwd=d, timeout=660)
        if rc != 0:
            return False, out
        mod = '%s_model' % lo
        drv = open(os.path.join(COQ, 'Extract', 'driver.ml.in')).read().replace('@MOD@', mod.capitalize())
        with open(os.path.join(d, 'driver.ml'), 'w') as f:
            f.write(drv)
        rc, out2 = sh('ocamlfind ocamlopt -O2 -w -a %s.mli %s.ml driver.ml -o model 2>&1 || '
                      'ocamlfind ocamlopt -w -a %s.mli %s.ml driver.ml -o model' % (mod, mod, mod, mod),
                      cwd=d, timeout=600)
        if rc != 0:
            return False, out + out2
        with open(sp, 'w') as f:
            f.write(stamp)
    return True, out


def run_model(pid, mode, inputs, timeout=1800):
    """inputs: list of python values (already to_val'ed or convertible). returns list of values."""
    exe = os.path.join(BUILD, 'ext', pid, 'model')
    data = '\n'.join(sexp(to_val(i)) for i in inputs) + '\n'
    p = subprocess.run(['/bin/sh', '-c', 'ulimit -s unlimited 2>/dev/null; exec %s %d' % (exe, mode)],
                       input=data, capture_output=True, text=True, timeout=timeout)
    if p.returncode != 0:
        raise RuntimeError('model %s failed: %s' % (pid, p.stderr[:2000]))
    lines = [l for l in p.stdout.splitlines() if l.strip()]
    if len(lines) != len(inputs):
        raise RuntimeError('model %s: %d outputs for %d inputs' % (pid, len(lines), len(inputs)))
    return [parse_sexp(l) for l in lines]


def vm_crosscheck(pid, mode, pairs, run_name=None, require=None):
    """Evaluate the model inside Coq (vm_compute) on (input, extracted-output) pairs.
    returns (ok, n_mismatch, log).  Keeps extraction out of the trust path for the sample."""
    d = os.path.join(BUILD, 'vm', pid)
    os.makedirs(d, exist_ok=True)
    run_name = run_name or 'run_%s' % pid
    require = require or 'Model.%s' % pid
    body = ['From Coq Require Import ZArith List.', 'Import ListNotations.',
            'From SCMO Require Import Lib.Val %s.' % require, 'Open Scope Z_scope.',
            'Definition cases : list (Val * Val) := [']
    body.append(';\n'.join('  (%s, %s)' % (coq_val(to_val(i)), coq_val(to_val(o))) for i, o in pairs))
    body.append('].')
    body.append('Eval vm_compute in (length (mismatches (%s %d) cases), length cases).' % (run_name, mode))
    with open(os.path.join(d, 'cases.v'), 'w') as f:
        f.write('\n'.join(body) + '\n')
    rc, out = sh('ulimit -s unlimited 2>/dev/null; timeout 900 coqc -Q %s SCMO cases.v' % COQ, cwd=d, timeout=960)
    if rc != 0:
        return False, -1, out
    m = re.search(r'=\s*\((\d+)%nat,\s*(\d+)%nat\)|=\s*\((\d+),\s*(\d+)\)', out)
    if not m:
        return False, -1, out
    g = [x for x in m.groups() if x is not None]
    return int(g[0]) == 0 and int(g[1]) == len(pairs), int(g[0]), out


# ----------------------------------------------------------------------------- implementation runner
def run_impl(script, payload, timeout=3600, repo=None):
    """Run tools/<script> under /venv python with PYTHONPATH=repo in a scratch dir outside /repo and
    /verif; payload (JSON) on stdin, JSON result on stdout (last line starting with RESULT:)."""
    repo = repo or REPO
    scratch = tempfile.mkdtemp(prefix='scmo_verif_')
    try:
        env = dict(os.environ)
        env.update({'PYTHONPATH': repo + os.pathsep + os.path.join(VERIF, 'tools'), 'PYTHONHASHSEED': '0',
                    'SCMO_REPO': repo, 'SCMO_SCRATCH': scratch, 'PIP_NO_INDEX': '1',
                    'OMP_NUM_THREADS': '1'})
        p = subprocess.run([PY, os.path.join(VERIF, 'tools', script)], input=json.dumps(payload),
                           capture_output=True, text=True, timeout=timeout, cwd=scratch, env=env)
        for line in reversed(p.stdout.splitlines()):
            if line.startswith('RESULT:'):
                return json.loads(line[7:])
        raise RuntimeError('impl runner %s produced no RESULT (rc=%s)\nstdout: %s\nstderr: %s'
                           % (script, p.returncode, p.stdout[-3000:], p.stderr[-3000:]))
    finally:
        shutil.rmtree(scratch, ignore_errors=True)


def impl_main(handler):
    """helper for tools/impl_*.py: read payload, call handler(payload), print RESULT line."""
    payload = json.loads(sys.stdin.read())
    res = handler(payload)
    sys.stdout.write('\nRESULT:' + json.dumps(res) + '\n')
    sys.stdout.flush()


# ----------------------------------------------------------------------------- findings
def load_findings(pid):
    p = os.path.join(VERIF, 'known_findings.json')
    if not os.path.exists(p):
        return []
    data = json.load(open(p))
    return [f for f in data.get('findings', []) if f.get('property') == pid]


# ----------------------------------------------------------------------------- property base
class Broken(Exception):
    """a proof obligation, the translator tie or the correspondence no longer checks"""
    def __init__(self, kind, detail):
        super().__init__('%s: %s' % (kind, detail[:300]))
        self.kind, self.detail = kind, detail


class PropBase:
    ID = None
    PROPS = None           # e.g. 'Props/C10.v'
    HAS_MODEL = True
    TRUSTED = []           # property specific trusted-base strings
    ASSUMPTIONS = []

    def __init__(self, tier, seed):
        self.tier, self.seed = tier, seed
        self.rng = random.Random(seed)
        self.t0 = time.time()
        self.cov = {}
        self.breaks = []       # list of (kind, detail)
        self.witnesses = []    # violations found: dict(key=..., what=..., input=..., ...)
        self.known_lines = []
        self.notes = []

    FALLBACK_PASSES = 2

    def gen_refs(self):
        """Gen/*.v files referenced (textually) from the dependency closure of the property's theorems and model"""
        refs, seen, todo = set(), set(), [self.PROPS, 'Extract/Extr%s.v' % self.ID]
        while todo:
            f = todo.pop()
            if f in seen:
                continue
            seen.add(f)
            p = os.path.join(COQ, f)
            if f.startswith('Gen/'):
                refs.add(f)
                if not os.path.exists(p):
                    p = os.path.join(COQ, 'Gen.pinned', os.path.basename(f))
            if not os.path.exists(p):
                continue
            txt = strip_comments(open(p).read())
            for m in re.finditer(r'\b((?:SCMO\.)?(?:Lib|Gen|Model|Proofs|Props)\.[A-Za-z0-9_]+)\b', txt):
                name = m.group(1)
                if name.startswith('SCMO.'):
                    name = name[5:]
                todo.append(name.replace('.', '/') + '.v')
        return sorted(refs)

    def use_pinned_gen(self):
        refs = self.gen_refs()
        pins = [os.path.join(COQ, 'Gen.pinned', os.path.basename(f)) for f in refs]
        if not refs or not all(os.path.exists(p) for p in pins):
            return False
        for f, p in zip(refs, pins):
            dst = os.path.join(COQ, f)
            if not os.path.exists(dst) or open(dst).read() != open(p).read():
                shutil.copy(p, dst)
        return True

    # -- hooks for subclasses
    def regen(self):
        """T: regenerate coq/Gen files from REPO. return list of metadata dicts. May raise Untranslatable."""
        return []

    def correspondence(self):
        """K: run model and implementation on the same inputs; append to self.breaks on disagreement;
        fill self.cov (evaluations, distinct_nontrivial, rule, samples, histograms...)."""

    def search(self):
        """search the implementation (and the model) for a concrete failing input; append dicts to
        self.witnesses, each with a 'key' (stable identity used to match known findings)."""

    def replay_known(self, finding):
        """return True when the recorded finding still reproduces on the implementation."""
        return True

    def matches(self, finding, witness):
        return finding.get('key') == witness.get('key')

    def replay(self, data):
        """default replay: show the recorded witness and re-run the whole check on the current tree"""
        print(json.dumps(data.get('witness', data.get('no_longer_checks')), indent=1, default=str)[:4000])
        return self.run()

    # -- driver
    def run(self):
        # runs of the same property share coq/Gen/* and build/ext/<pid>: serialise them
        with BuildLock('run_' + self.ID):
            self.t0 = time.time()
            return self._run()

    def _run(self):
        from py2coq import Untranslatable
        pid = self.ID
        gen_meta = []
        self.fallback = None
        refusal = None
        try:
            gen_meta = self.regen() or []
        except Untranslatable as e:
            refusal = 'py2coq refused the current source: %s' % e
        except Exception as e:  # fail closed
            refusal = 'regeneration failed: %r' % (e,)
        if refusal is not None:
            # The translator recognises source *shapes*; a restructured source is refused although it may compute the
            # same thing.  The tie then falls back to the second admissible kind (DESIGN 2.2/12): the last translation
            # of the pinned tree (coq/Gen.pinned, committed) becomes a hand-held model, the theorems are re-checked
            # about it, and the correspondence check K - run with extra passes - must tie it to the current code.
            # Any disagreement, proof failure or specification violation is handled exactly as before.
            if os.environ.get('VERIF_NO_FALLBACK') != '1' and self.use_pinned_gen():
                self.fallback = refusal
                self.notes.append('translator tie unavailable (%s); fell back to the pinned translation + '
                                  'correspondence check with %d extra passes' % (refusal[:300], self.FALLBACK_PASSES))
                gen_meta = [{'fallback': 'Gen.pinned', 'reason': refusal[:500]}]
            else:
                self.breaks.append(('translator', refusal))
        self.cov['generated'] = gen_meta
        # proofs
        obligations, discharged, axioms = 0, 0, []
        names = theorem_names(os.path.join(COQ, self.PROPS))
        obligations = len(names)
        deps = coq_deps(self.PROPS)
        bad = forbidden_scan(deps)
        if bad:
            self.breaks.append(('forbidden', '; '.join(bad)))
        ok, out = coq_make([f[:-2] + '.vo' for f in deps if f != self.PROPS])
        if not ok:
            self.breaks.append(('proof', tail_error(out)))
        else:
            ok, out = coqc_capture(self.PROPS)
            if not ok:
                self.breaks.append(('proof', tail_error(out)))
            else:
                blocks = parse_assumptions(out)
                if len(blocks) < obligations:
                    self.breaks.append(('proof', 'Print Assumptions missing for some theorem: %d blocks, %d theorems'
                                        % (len(blocks), obligations)))
                for closed, ax in blocks:
                    for a in ax:
                        if a not in axioms:
                            axioms.append(a)
                        if a not in ALLOWED_AXIOMS and a.split('.')[-1] not in ALLOWED_AXIOMS:
                            self.breaks.append(('axiom', 'theorem depends on non-allowed axiom %s' % a))
                if not [b for b in self.breaks if b[0] in ('proof', 'axiom', 'forbidden')]:
                    discharged = obligations
        if self.tier == 'thorough' and not self.breaks and os.environ.get('VERIF_COQCHK', '1') == '1':
            rc, out = sh('timeout 1500 coqchk -silent -o -Q . SCMO SCMO.%s' % self.PROPS[:-2].replace('/', '.'),
                         cwd=COQ, timeout=1600)
            self.cov['coqchk'] = 'ok' if rc == 0 else 'FAILED'
            if rc != 0:
                self.breaks.append(('coqchk', out[-1500:]))
            else:
                self.cov['coqchk_axioms'] = [l.strip() for l in out.splitlines() if l.strip()][-12:]
        self.cov.update({'obligations': obligations, 'discharged': discharged,
                         'theorems': names, 'axioms_reported_by_Print_Assumptions': axioms})
        # model + correspondence
        model_ok = True
        if self.HAS_MODEL:
            ok, out = build_model(pid)
            if not ok:
                model_ok = False
                self.breaks.append(('model', tail_error(out)))
        self.model_ok = model_ok
        try:
            try:
                self.correspondence()
            except Broken:
                raise
            except (subprocess.TimeoutExpired, RuntimeError, OSError) as e:
                # infrastructure trouble (a hung or killed helper process): not evidence about the
                # property; retry once from scratch before giving up loudly
                self.notes.append('correspondence run aborted by %r; retried once' % (e,))
                self.rng = random.Random(self.seed)
                self.cov = {k: v for k, v in self.cov.items() if k in ('generated', 'obligations', 'discharged', 'theorems',
                                                                     'axioms_reported_by_Print_Assumptions', 'coqchk', 'coqchk_axioms')}
                self.correspondence()
        except Broken as b:
            self.breaks.append((b.kind, b.detail))
        except Exception as e:
            # the harness itself could not complete on this tree (an output shape it cannot read, a helper process that
            # keeps dying): the correspondence is not established - handled like every other broken tie
            import traceback
            self.breaks.append(('correspondence', 'the correspondence run could not be completed: %r\n%s'
                                % (e, traceback.format_exc()[-1500:])))
        if self.fallback and not self.breaks:
            # translator tie replaced by correspondence: spend more on it (fresh generator streams)
            keep = ('generated', 'obligations', 'discharged', 'theorems', 'axioms_reported_by_Print_Assumptions',
                    'coqchk', 'coqchk_axioms')
            total = self.cov.get('evaluations') or 0
            for k in range(1, self.FALLBACK_PASSES + 1):
                self.rng = random.Random(self.seed * 1000003 + 7919 * k)
                self.cov = {a: b for a, b in self.cov.items() if a in keep}
                try:
                    self.correspondence()
                except Broken as b:
                    self.breaks.append((b.kind, b.detail))
                except Exception as e:
                    self.breaks.append(('correspondence', 'extra correspondence pass %d aborted: %r' % (k, e)))
                if isinstance(self.cov.get('evaluations'), int) and isinstance(total, int):
                    total += self.cov['evaluations']
                if self.breaks:
                    break
            self.cov['evaluations_all_passes'] = total
            self.cov['tie'] = 'correspondence only (translator refused the source; pinned translation used as the model)'
        # findings & search
        findings = load_findings(pid)
        for f in findings:
            try:
                if self.replay_known(f):
                    self.known_lines.append('KNOWN-FINDING: property=%s %s' % (pid, f.get('what', f.get('key'))))
            except Exception as e:
                self.notes.append('replay of known finding %s failed: %r' % (f.get('key'), e))
        if self.breaks or self.fallback:
            # with the translator tie replaced by the correspondence alone, the failing-input search (which explores
            # scenarios beyond the correspondence streams and evaluates the statement on the implementation's own
            # outputs) is always run; anything it finds that is not a recorded finding is a violation
            try:
                self.search()
            except Exception as e:
                self.notes.append('search raised %r' % (e,))
            if self.fallback and not self.breaks:
                new = [w for w in self.witnesses if not any(self.matches(f, w) for f in findings)]
                if new:
                    self.breaks.append(('specification', 'the failing-input search (run because the translator tie was '
                                        'replaced by the correspondence check) found %d input(s) on which the '
                                        'implementation violates the statement; first: %s'
                                        % (len(new), str(new[0].get('what'))[:600])))
        return self.finish(findings)

    def finish(self, findings):
        pid = self.ID
        new = [w for w in self.witnesses if not any(self.matches(f, w) for f in findings)]
        wall = time.time() - self.t0
        status = 0
        lines = list(self.known_lines)
        os.makedirs(os.path.join(VERIF, 'replay'), exist_ok=True)
        if self.breaks:
            status = 1
            if new:
                for k, w in enumerate(new[:5]):
                    path = os.path.join(VERIF, 'replay', '%s-%d-%d.json' % (pid, self.seed, k))
                    json.dump({'property': pid, 'witness': w, 'broken': self.breaks[:5],
                               'replay_cmd': './check %s --replay %s' % (pid, path)}, open(path, 'w'), indent=1,
                              default=str)
                    lines.append('VIOLATION property=%s replay=%s' % (pid, path))
            else:
                path = os.path.join(VERIF, 'replay', '%s-%d-nofail.json' % (pid, self.seed))
                json.dump({'property': pid, 'no_longer_checks': [{'kind': k, 'detail': d} for k, d in self.breaks],
                           'note': 'no failing input found on model or implementation; the property is no longer '
                                   'shown to hold because the listed theorem / tie / correspondence does not check'},
                          open(path, 'w'), indent=1, default=str)
                lines.append('VIOLATION property=%s replay=%s no-failing-input-found' % (pid, path))
        cov = dict(self.cov)
        cov.setdefault('checker_cmd', 'make (coqc 8.16.1 full .vo build) + coqc %s (Print Assumptions)' % self.PROPS)
        cov['trusted_base'] = BASE_TRUSTED + list(self.TRUSTED)
        cov['breaks'] = [{'kind': k, 'detail': d[:2000]} for k, d in self.breaks]
        cov['notes'] = self.notes
        cov['known_findings_reproduced'] = self.known_lines
        ev = {'property_id': pid, 'tier': self.tier, 'seed': self.seed, 'level': 'proof', 'coverage': cov,
              'assumptions': list(self.ASSUMPTIONS), 'wall_s': round(wall, 2),
              'violations': len(new) if self.breaks else 0}
        # evidence/ only ever describes runs against /repo itself; runs against another tree (mutation
        # testing via SCMO_REPO) write under build/
        evdir = os.path.join(VERIF, 'evidence') if os.path.realpath(REPO) == '/repo' else os.path.join(BUILD, 'evidence_alt')
        os.makedirs(evdir, exist_ok=True)
        ev['coverage']['repo'] = REPO
        with open(os.path.join(evdir, '%s.json' % pid), 'w') as f:
            json.dump(ev, f, indent=1, default=str)
        for l in lines:
            print(l)
        print('%s %s tier=%s seed=%d obligations=%s discharged=%s evaluations=%s wall=%.1fs'
              % (pid, 'FAIL' if status else 'OK', self.tier, self.seed, cov.get('obligations'),
                 cov.get('discharged'), cov.get('evaluations'), wall))
        if status:
            for k, d in self.breaks[:6]:
                print('  broken[%s]: %s' % (k, d[:600].replace('\n', '\n    ')))
        return status


BASE_TRUSTED = [
    'Coq 8.16.1 kernel (coqc), vm_compute; no native_compute; coqchk re-check in the thorough tier',
    'tools/py2coq.py (fail-closed translator for Gen/*.v) where the property uses T',
    'Extraction with ExtrOcamlBasic only (Extract Inductive bool/option/unit/list/prod/sumbool/sumor, '
    'Extract Inlined Constant andb/orb/negb/fst/snd as that file declares); Z/positive/N/nat stay inductive; '
    'coq/Extract/driver.ml.in (S-expression parser/printer, int<->Z); cross-checked by vm_compute on a sample',
    'Python correspondence harness (generators, canonicalisation, abstraction functions)',
]


def tail_error(out):
    lines = out.splitlines()
    for i, l in enumerate(lines):
        if l.startswith('File ') and i + 1 < len(lines) and 'Error' in '\n'.join(lines[i:i + 4]):
            return '\n'.join(lines[i:i + 25])
    return '\n'.join(lines[-25:])
