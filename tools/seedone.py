"""re-run single (seed dir, check property) pairs and update their confirm files.  usage: seedone.py C07-10:C07 C05-2:C05 ..."""
import json, os, subprocess, sys
V = os.path.dirname(os.path.dirname(os.path.abspath(__file__)))
for a in sys.argv[1:]:
    sd, by = a.split(':')
    d = os.path.join(V, 'seeded', sd)
    meta = json.load(open(os.path.join(d, 'meta.json')))
    f = os.path.join(d, 'confirm.json' if by == meta['property'] else 'confirm_%s.json' % by)
    t = open(f).read(); old = json.loads(t[t.index('{'):])
    p = subprocess.run([sys.executable, os.path.join(V, 'tools', 'seedtest.py'), d, '--no-tests', '--prop', by], capture_output=True, text=True)
    try:
        new = json.loads(p.stdout[p.stdout.index('{'):])
    except Exception:
        print(sd, by, 'ERROR', (p.stdout + p.stderr)[-300:]); continue
    print('%-8s by %s  before %s/%s  now %s/%s' % (sd, by, old.get('caught'), old.get('with_failing_input'), new.get('caught'), new.get('with_failing_input')), flush=True)
    if new.get('caught') is not None:
        old.update({k: new[k] for k in ('check_rc', 'check_wall_s', 'check_lines', 'caught', 'with_failing_input') if k in new})
        json.dump(old, open(f, 'w'), indent=1)
