#!/bin/sh
# MANIFEST.setup_cmd: offline, from files on disk only. Full clean .vo build + extracted models.
cd "$(dirname "$0")" || exit 1
exec /venv/bin/python tools/setup.py --clean
